//! Independent AGC-v3 reader, written from the format rules only. It shares no
//! code with ragc (only the `zstd` crate). Every routine returns `Err(String)`
//! on malformed input instead of panicking.
//!
//! Rules implemented
//! * file = parts … footer, 8-byte little-endian footer length
//! * footer = varint(#streams) { name NUL, varint(#parts), varint(raw size),
//!   { varint(offset), varint(size) }* }*
//! * varint = one count byte c (0..8) followed by c big-endian bytes
//! * part at `offset` = varint(metadata) followed by `size` data bytes
//! * `params` = k, min match, pack cardinality, segment size as LE u32
//! * collection streams use prefix-coded integers (1..5 bytes)
//! * segment streams `x<b64 id>r` (reference, one part) / `x<b64 id>d` (packs)
//! * part payload: metadata 0 ⇒ stored raw; else last byte = marker
//!   (0 plain ZSTD, otherwise ZSTD + tuple unpacking) and metadata = raw size
//! * pack = entries each terminated by 0xFF; raw groups 0..15 carry the 0x7f
//!   placeholder as entry 0 of pack 0
//! * LZ-diff V2 text

use std::collections::BTreeMap;

pub type R<T> = Result<T, String>;

// ---------------------------------------------------------------- integers --

/// length-prefixed big-endian integer
pub fn read_be_varint(buf: &[u8], pos: &mut usize) -> R<u64> {
    let c = *buf.get(*pos).ok_or("varint: missing count byte")? as usize;
    *pos += 1;
    if c > 8 {
        return Err(format!("varint: count byte {} > 8", c));
    }
    if *pos + c > buf.len() {
        return Err("varint: truncated".into());
    }
    let mut v: u64 = 0;
    for i in 0..c {
        v = (v << 8) | buf[*pos + i] as u64;
    }
    *pos += c;
    Ok(v)
}

/// the encoding rule, for byte-exact comparison
pub fn write_be_varint(v: u64) -> Vec<u8> {
    let mut n = 0usize;
    while n < 8 && (v >> (8 * n)) != 0 {
        n += 1;
    }
    let mut out = vec![n as u8];
    for i in (0..n).rev() {
        out.push((v >> (8 * i)) as u8);
    }
    out
}

const P1: u32 = 1 << 7;
const P2: u32 = P1 + (1 << 14);
const P3: u32 = P2 + (1 << 21);
const P4: u32 = P3 + (1 << 28);

/// prefix-coded integer of the collection streams
pub fn read_prefix_int(buf: &[u8], pos: &mut usize) -> R<u32> {
    let b0 = *buf.get(*pos).ok_or("prefix int: end of data")?;
    let need = if b0 & 0x80 == 0 {
        1
    } else if b0 & 0xC0 == 0x80 {
        2
    } else if b0 & 0xE0 == 0xC0 {
        3
    } else if b0 & 0xF0 == 0xE0 {
        4
    } else {
        5
    };
    if *pos + need > buf.len() {
        return Err("prefix int: truncated".into());
    }
    let b = &buf[*pos..*pos + need];
    *pos += need;
    let v: u64 = match need {
        1 => b[0] as u64,
        2 => (((b[0] & 0x3F) as u64) << 8 | b[1] as u64) + P1 as u64,
        3 => (((b[0] & 0x1F) as u64) << 16 | (b[1] as u64) << 8 | b[2] as u64) + P2 as u64,
        4 => (((b[0] & 0x0F) as u64) << 24 | (b[1] as u64) << 16 | (b[2] as u64) << 8 | b[3] as u64) + P3 as u64,
        _ => ((b[1] as u64) << 24 | (b[2] as u64) << 16 | (b[3] as u64) << 8 | b[4] as u64) + P4 as u64,
    };
    if v > u32::MAX as u64 {
        return Err("prefix int: exceeds 32 bits".into());
    }
    Ok(v as u32)
}

pub fn write_prefix_int(v: u32) -> Vec<u8> {
    if v < P1 {
        vec![v as u8]
    } else if v < P2 {
        let x = v - P1;
        vec![0x80 | (x >> 8) as u8, x as u8]
    } else if v < P3 {
        let x = v - P2;
        vec![0xC0 | (x >> 16) as u8, (x >> 8) as u8, x as u8]
    } else if v < P4 {
        let x = v - P3;
        vec![0xE0 | (x >> 24) as u8, (x >> 16) as u8, (x >> 8) as u8, x as u8]
    } else {
        let x = v - P4;
        vec![0xF0, (x >> 24) as u8, (x >> 16) as u8, (x >> 8) as u8, x as u8]
    }
}

fn read_cstr<'a>(buf: &'a [u8], pos: &mut usize) -> R<&'a [u8]> {
    let rest = buf.get(*pos..).ok_or("cstr: out of range")?;
    let end = rest.iter().position(|&b| b == 0).ok_or("cstr: missing NUL")?;
    let s = &rest[..end];
    *pos += end + 1;
    Ok(s)
}

// --------------------------------------------------------------- container --

#[derive(Clone, Debug, PartialEq, Eq)]
pub struct PartRef {
    pub offset: u64,
    pub size: u64,
}

#[derive(Clone, Debug, PartialEq, Eq)]
pub struct StreamDir {
    pub name: String,
    pub raw_size: u64,
    pub parts: Vec<PartRef>,
}

pub struct Container<'a> {
    pub file: &'a [u8],
    pub streams: Vec<StreamDir>,
    pub by_name: BTreeMap<String, usize>,
    pub footer_start: usize,
}

impl<'a> Container<'a> {
    pub fn parse(file: &'a [u8]) -> R<Container<'a>> {
        if file.len() < 8 {
            return Err("file shorter than the 8-byte footer length".into());
        }
        let flen = u64::from_le_bytes(file[file.len() - 8..].try_into().unwrap());
        if flen > (file.len() - 8) as u64 {
            return Err(format!("footer length {} exceeds file size {}", flen, file.len()));
        }
        let footer_start = file.len() - 8 - flen as usize;
        let footer = &file[footer_start..file.len() - 8];
        let mut pos = 0usize;
        let n = read_be_varint(footer, &mut pos)?;
        let mut streams = Vec::new();
        let mut by_name = BTreeMap::new();
        for i in 0..n {
            let name = String::from_utf8(read_cstr(footer, &mut pos)?.to_vec()).map_err(|_| "stream name not UTF-8")?;
            let nparts = read_be_varint(footer, &mut pos)?;
            let raw_size = read_be_varint(footer, &mut pos)?;
            let mut parts = Vec::new();
            for _ in 0..nparts {
                let offset = read_be_varint(footer, &mut pos)?;
                let size = read_be_varint(footer, &mut pos)?;
                parts.push(PartRef { offset, size });
            }
            if by_name.insert(name.clone(), i as usize).is_some() {
                return Err(format!("duplicate stream name {:?}", name));
            }
            streams.push(StreamDir { name, raw_size, parts });
        }
        if pos != footer.len() {
            return Err(format!("footer has {} trailing bytes", footer.len() - pos));
        }
        Ok(Container { file, streams, by_name, footer_start })
    }

    pub fn stream(&self, name: &str) -> Option<&StreamDir> {
        self.by_name.get(name).map(|&i| &self.streams[i])
    }

    /// (metadata, data) of one part
    pub fn part(&self, s: &StreamDir, idx: usize) -> R<(u64, &'a [u8])> {
        let p = s.parts.get(idx).ok_or_else(|| format!("stream {} has no part {}", s.name, idx))?;
        let mut pos = usize::try_from(p.offset).map_err(|_| "offset overflow")?;
        if pos >= self.footer_start {
            return Err(format!("part offset {} lies in the footer", pos));
        }
        let meta = read_be_varint(&self.file[..self.footer_start], &mut pos)?;
        let end = pos.checked_add(p.size as usize).ok_or("size overflow")?;
        if end > self.footer_start {
            return Err(format!("part [{}..{}) runs into the footer at {}", pos, end, self.footer_start));
        }
        Ok((meta, &self.file[pos..end]))
    }
}

// ------------------------------------------------------------- compression --

pub fn zstd_decode(data: &[u8]) -> R<Vec<u8>> {
    zstd::decode_all(data).map_err(|e| format!("zstd: {}", e))
}

/// tuple unpacking: last byte = (width << 4) | (len mod width); width 1 = no
/// packing; otherwise each byte holds `width` symbols in base {16,6,4}, most
/// significant first; a trailing (possibly partial) tuple is always present.
pub fn tuple_unpack(t: &[u8]) -> R<Vec<u8>> {
    let (&marker, body) = t.split_last().ok_or("tuple: empty")?;
    let width = (marker >> 4) as usize;
    let rem = (marker & 0x0F) as usize;
    let base: u32 = match width {
        1 => {
            return Ok(body.to_vec());
        }
        2 => 16,
        3 => 6,
        4 => 4,
        _ => return Err(format!("tuple: bad width {}", width)),
    };
    if rem >= width {
        return Err(format!("tuple: remainder {} >= width {}", rem, width));
    }
    let (&last, full) = body.split_last().ok_or("tuple: missing trailing tuple")?;
    let mut out = Vec::with_capacity(full.len() * width + rem);
    for &b in full {
        let mut c = b as u32;
        let mut tmp = [0u8; 4];
        for k in (0..width).rev() {
            tmp[k] = (c % base) as u8;
            c /= base;
        }
        if c != 0 {
            return Err("tuple: byte out of range for its width".into());
        }
        out.extend_from_slice(&tmp[..width]);
    }
    let mut c = last as u32;
    let mut tmp = [0u8; 4];
    for k in (0..rem).rev() {
        tmp[k] = (c % base) as u8;
        c /= base;
    }
    if c != 0 {
        return Err("tuple: trailing tuple out of range".into());
    }
    out.extend_from_slice(&tmp[..rem]);
    Ok(out)
}

/// expected packed length for a symbol string (the rule, for conformance)
pub fn tuple_packed_len(data: &[u8]) -> usize {
    if data.is_empty() {
        return 1;
    }
    let m = *data.iter().max().unwrap();
    let w = if m < 4 {
        4
    } else if m < 6 {
        3
    } else if m < 16 {
        2
    } else {
        1
    };
    if w == 1 {
        data.len() + 1
    } else {
        data.len() / w + 2
    }
}

#[derive(Clone, Copy, Debug, PartialEq, Eq)]
pub enum PartKind {
    StoredRaw,
    PlainZstd,
    TupleZstd,
}

/// decode a segment-stream part according to the metadata / marker convention
pub fn decode_payload(meta: u64, data: &[u8]) -> R<(Vec<u8>, PartKind)> {
    if meta == 0 {
        return Ok((data.to_vec(), PartKind::StoredRaw));
    }
    let (&marker, body) = data.split_last().ok_or("payload: compressed part is empty")?;
    let raw = zstd_decode(body)?;
    let (out, kind) = match marker {
        0 => (raw, PartKind::PlainZstd),
        1 => (tuple_unpack(&raw)?, PartKind::TupleZstd),
        m => return Err(format!("payload: marker byte {} is neither 0 nor 1", m)),
    };
    if out.len() as u64 != meta {
        return Err(format!("payload: metadata {} != unpacked size {}", meta, out.len()));
    }
    Ok((out, kind))
}

// ---------------------------------------------------------------- LZ text --

fn lz_int(t: &[u8], pos: &mut usize) -> R<i64> {
    let neg = t.get(*pos) == Some(&b'-');
    if neg {
        *pos += 1;
    }
    let start = *pos;
    let mut v: i64 = 0;
    while let Some(&c) = t.get(*pos) {
        if !c.is_ascii_digit() {
            break;
        }
        v = v.checked_mul(10).and_then(|x| x.checked_add((c - b'0') as i64)).ok_or("lz: integer overflow")?;
        *pos += 1;
    }
    if *pos == start {
        return Err(format!("lz: expected digits at {}", start));
    }
    Ok(if neg { -v } else { v })
}

/// LZ-diff V2: literal = 'A'+code, '!' = reference symbol at the predicted
/// position, N-run = 30 <len-4> 4, match = <pos delta>[,<len-min>] '.'
pub fn lz_decode(reference: &[u8], text: &[u8], min_match: u32) -> R<Vec<u8>> {
    let mut out = Vec::new();
    let mut pred: i64 = 0;
    let mut i = 0usize;
    while i < text.len() {
        let c = text[i];
        if c == 0xFF {
            return Err("lz: separator byte 0xFF inside text".into());
        }
        if c == b'!' {
            let s = *reference.get(pred as usize).ok_or("lz: '!' beyond reference")?;
            out.push(s);
            pred += 1;
            i += 1;
        } else if c >= b'A' && c < 0x80 {
            out.push(c - b'A');
            pred += 1;
            i += 1;
        } else if c == 30 {
            i += 1;
            let n = lz_int(text, &mut i)?;
            if n < 0 {
                return Err("lz: negative N-run length".into());
            }
            if text.get(i) != Some(&4) {
                return Err("lz: N-run not closed by code 4".into());
            }
            i += 1;
            out.resize(out.len() + n as usize + 4, 4);
        } else if c == b'-' || c.is_ascii_digit() {
            let d = lz_int(text, &mut i)?;
            let rp = pred + d;
            if rp < 0 || rp as usize > reference.len() {
                return Err(format!("lz: match position {} outside reference of {}", rp, reference.len()));
            }
            let rp = rp as usize;
            let len = match text.get(i) {
                Some(&b',') => {
                    i += 1;
                    let l = lz_int(text, &mut i)?;
                    if l < 0 {
                        return Err("lz: negative match length".into());
                    }
                    if text.get(i) != Some(&b'.') {
                        return Err("lz: match not closed by '.'".into());
                    }
                    i += 1;
                    l as usize + min_match as usize
                }
                Some(&b'.') => {
                    i += 1;
                    reference.len() - rp
                }
                _ => return Err("lz: match without ',' or '.'".into()),
            };
            if rp + len > reference.len() {
                return Err(format!("lz: match [{}..{}) beyond reference of {}", rp, rp + len, reference.len()));
            }
            out.extend_from_slice(&reference[rp..rp + len]);
            pred = (rp + len) as i64;
        } else {
            return Err(format!("lz: unexpected byte {} at {}", c, i));
        }
    }
    Ok(out)
}

// -------------------------------------------------------------- collection --

pub fn decode_sample_names(raw: &[u8]) -> R<Vec<String>> {
    let mut pos = 0;
    let n = read_prefix_int(raw, &mut pos)?;
    let mut out = Vec::new();
    for _ in 0..n {
        out.push(String::from_utf8(read_cstr(raw, &mut pos)?.to_vec()).map_err(|_| "sample name not UTF-8")?);
    }
    if pos != raw.len() {
        return Err("sample names: trailing bytes".into());
    }
    Ok(out)
}

/// contig names of one batch: Vec (per sample) of Vec<name>
///
/// name coding: the record is NUL terminated; it is split at blanks; if the
/// field count differs from the previous *decoded* name of the same sample
/// (or there is none) it is plain text. Otherwise each field is: the single
/// byte 0x81 (-127) = same as previous field; else a mix of plain characters
/// (<0x80) and run markers b>=0x80 meaning "copy (256-b) characters of the
/// previous field at the current position".
pub fn decode_contig_names(raw: &[u8]) -> R<Vec<Vec<String>>> {
    let mut pos = 0;
    let ns = read_prefix_int(raw, &mut pos)?;
    let mut out = Vec::new();
    for _ in 0..ns {
        let nc = read_prefix_int(raw, &mut pos)?;
        let mut names: Vec<String> = Vec::new();
        let mut prev: Vec<Vec<u8>> = Vec::new();
        for _ in 0..nc {
            let rec = read_cstr(raw, &mut pos)?;
            let fields: Vec<&[u8]> = rec.split(|&b| b == b' ').collect();
            let decoded: Vec<Vec<u8>> = if prev.is_empty() || fields.len() != prev.len() {
                fields.iter().map(|f| f.to_vec()).collect()
            } else {
                let mut d = Vec::new();
                for (f, p) in fields.iter().zip(prev.iter()) {
                    if f.len() == 1 && f[0] == 0x81 {
                        d.push(p.clone());
                        continue;
                    }
                    let mut cur = Vec::new();
                    for &b in f.iter() {
                        if b < 0x80 {
                            cur.push(b);
                        } else {
                            let cnt = 256 - b as usize;
                            let at = cur.len();
                            let src = p.get(at..at + cnt).ok_or("contig name: run marker beyond previous field")?;
                            cur.extend_from_slice(src);
                        }
                    }
                    d.push(cur);
                }
                d
            };
            let name = decoded.join(&b' ');
            names.push(String::from_utf8(name).map_err(|_| "contig name not UTF-8")?);
            prev = decoded;
        }
        out.push(names);
    }
    if pos != raw.len() {
        return Err("contig names: trailing bytes".into());
    }
    Ok(out)
}

#[derive(Clone, Copy, Debug, PartialEq, Eq, Hash)]
pub struct Desc {
    pub group: u32,
    pub in_group: u32,
    pub rc: bool,
    pub raw_len: u32,
}

fn unzigzag_pred(v: u64, pred: u64) -> u64 {
    // values >= 2*pred are literal; otherwise odd = below the prediction, even = at/above
    if v >= 2 * pred {
        v
    } else if v & 1 == 1 {
        pred - (v + 1) / 2
    } else {
        pred + v / 2
    }
}

/// descriptor table of one batch from the 5 decompressed detail streams
pub fn decode_details(streams: &[Vec<u8>; 5], segment_size: u32, k: u32) -> R<Vec<Vec<Vec<Desc>>>> {
    let s0 = &streams[0];
    let mut p0 = 0;
    let ns = read_prefix_int(s0, &mut p0)?;
    let mut shape: Vec<Vec<u32>> = Vec::new();
    for _ in 0..ns {
        let nc = read_prefix_int(s0, &mut p0)?;
        let mut v = Vec::new();
        for _ in 0..nc {
            v.push(read_prefix_int(s0, &mut p0)?);
        }
        shape.push(v);
    }
    if p0 != s0.len() {
        return Err("details[0]: trailing bytes".into());
    }
    let mut pos = [0usize; 5];
    let mut last_id: BTreeMap<u32, i64> = BTreeMap::new();
    let pred_len = segment_size as u64 + k as u64;
    let mut out = Vec::new();
    for sample in &shape {
        let mut sv = Vec::new();
        for &nseg in sample {
            let mut cv = Vec::new();
            for _ in 0..nseg {
                let g = read_prefix_int(&streams[1], &mut pos[1])?;
                let e_id = read_prefix_int(&streams[2], &mut pos[2])?;
                let e_len = read_prefix_int(&streams[3], &mut pos[3])?;
                let rc = read_prefix_int(&streams[4], &mut pos[4])?;
                let prev = *last_id.get(&g).unwrap_or(&-1);
                let id: u64 = if prev < 0 {
                    e_id as u64
                } else if e_id == 0 {
                    0
                } else if e_id == 1 {
                    (prev + 1) as u64
                } else {
                    unzigzag_pred(e_id as u64 - 1, (prev + 1) as u64)
                };
                // predictor is raised only when the id grows and is positive
                if id as i64 > prev && id > 0 {
                    last_id.insert(g, id as i64);
                }
                let raw_len = unzigzag_pred(e_len as u64, pred_len);
                if rc > 1 {
                    return Err("details: orientation flag > 1".into());
                }
                cv.push(Desc { group: g, in_group: id as u32, rc: rc == 1, raw_len: raw_len as u32 });
            }
            sv.push(cv);
        }
        out.push(sv);
    }
    for i in 1..5 {
        if pos[i] != streams[i].len() {
            return Err(format!("details[{}]: trailing bytes", i));
        }
    }
    Ok(out)
}

/// split a collection-details part into its 5 decompressed streams
pub fn unpack_details_part(data: &[u8]) -> R<[Vec<u8>; 5]> {
    let mut pos = 0;
    let mut sizes = [(0u32, 0u32); 5];
    for s in sizes.iter_mut() {
        s.0 = read_prefix_int(data, &mut pos)?;
        s.1 = read_prefix_int(data, &mut pos)?;
    }
    let mut out: [Vec<u8>; 5] = Default::default();
    for i in 0..5 {
        let end = pos + sizes[i].1 as usize;
        let chunk = data.get(pos..end).ok_or("details: stream truncated")?;
        out[i] = zstd_decode(chunk)?;
        if out[i].len() != sizes[i].0 as usize {
            return Err(format!("details[{}]: raw size {} != {}", i, sizes[i].0, out[i].len()));
        }
        pos = end;
    }
    if pos != data.len() {
        return Err("details: trailing bytes".into());
    }
    Ok(out)
}

// ----------------------------------------------------------- stream naming --

const B64: &[u8; 64] = b"0123456789ABCDEFGHIJKLMNOPQRSTUVWXYZabcdefghijklmnopqrstuvwxyz_#";

/// least-significant digit first
pub fn b64_id(mut n: u32) -> String {
    let mut s = String::new();
    loop {
        s.push(B64[(n & 63) as usize] as char);
        n >>= 6;
        if n == 0 {
            break;
        }
    }
    s
}

pub fn parse_b64_id(s: &str) -> Option<u32> {
    let mut v: u64 = 0;
    for (i, c) in s.bytes().enumerate() {
        let d = B64.iter().position(|&x| x == c)? as u64;
        v |= d << (6 * i);
        if v > u32::MAX as u64 {
            return None;
        }
    }
    if s.is_empty() {
        None
    } else {
        Some(v as u32)
    }
}

// ------------------------------------------------------------ whole archive --

#[derive(Clone, Debug, Default)]
pub struct ArchiveFacts {
    pub k: u32,
    pub min_match: u32,
    pub pack_cardinality: u32,
    pub segment_size: u32,
    pub samples: Vec<String>,
    /// per sample: (contig name, descriptors, decoded bases as codes)
    pub contigs: Vec<Vec<(String, Vec<Desc>, Vec<u8>)>>,
    pub classes: Vec<&'static str>,
    pub n_lz_groups: usize,
    pub n_raw_groups_used: usize,
    pub max_in_group_id: u32,
}

const PACK: usize = 50;
const RAW_GROUPS: u32 = 16;

fn split_pack(pack: &[u8]) -> R<Vec<&[u8]>> {
    if pack.is_empty() {
        return Ok(Vec::new());
    }
    if *pack.last().unwrap() != 0xFF {
        return Err("pack does not end with the 0xFF separator".into());
    }
    Ok(pack[..pack.len() - 1].split(|&b| b == 0xFF).collect())
}

fn revcomp_codes(s: &[u8]) -> Vec<u8> {
    s.iter().rev().map(|&c| if c < 4 { 3 - c } else { c }).collect()
}

/// Parse a whole archive, decode every contig, assert the addressing rules.
pub fn read_archive(file: &[u8]) -> R<ArchiveFacts> {
    let c = Container::parse(file)?;
    let mut facts = ArchiveFacts::default();
    let mut classes: Vec<&'static str> = Vec::new();

    // file_type_info: version 3.0
    {
        let s = c.stream("file_type_info").ok_or("no file_type_info stream")?;
        if s.parts.len() != 1 {
            return Err("file_type_info must have one part".into());
        }
        let (_, data) = c.part(s, 0)?;
        let items: Vec<&[u8]> = data.split(|&b| b == 0).collect();
        let mut kv = BTreeMap::new();
        let mut i = 0;
        while i + 1 < items.len() {
            kv.insert(String::from_utf8_lossy(items[i]).to_string(), String::from_utf8_lossy(items[i + 1]).to_string());
            i += 2;
        }
        if kv.get("file_version_major").map(|s| s.as_str()) != Some("3") || kv.get("file_version_minor").map(|s| s.as_str()) != Some("0") {
            return Err(format!("file_type_info does not say version 3.0: {:?}", kv));
        }
    }
    // params
    {
        let s = c.stream("params").ok_or("no params stream")?;
        if s.parts.len() != 1 {
            return Err("params must have exactly one part".into());
        }
        let (_, d) = c.part(s, 0)?;
        if d.len() < 16 {
            return Err(format!("params has {} bytes, expected >= 16", d.len()));
        }
        let le = |i: usize| u32::from_le_bytes(d[i..i + 4].try_into().unwrap());
        facts.k = le(0);
        facts.min_match = le(4);
        facts.pack_cardinality = le(8);
        facts.segment_size = le(12);
        if facts.pack_cardinality != PACK as u32 {
            return Err(format!("params: pack cardinality {} != 50", facts.pack_cardinality));
        }
    }
    // collection
    let s_samples = c.stream("collection-samples").ok_or("no collection-samples")?;
    let s_contigs = c.stream("collection-contigs").ok_or("no collection-contigs")?;
    let s_details = c.stream("collection-details").ok_or("no collection-details")?;
    if s_samples.parts.len() != 1 {
        return Err(format!("collection-samples has {} parts, expected 1", s_samples.parts.len()));
    }
    let (meta, data) = c.part(s_samples, 0)?;
    let raw = zstd_decode(data)?;
    if raw.len() as u64 != meta {
        return Err("collection-samples: metadata != raw size".into());
    }
    facts.samples = decode_sample_names(&raw)?;
    let n = facts.samples.len();
    let want_batches = (n + PACK - 1) / PACK;
    if s_contigs.parts.len() != want_batches || s_details.parts.len() != want_batches {
        return Err(format!(
            "{} samples need {} metadata batches, found {} contig / {} detail parts",
            n,
            want_batches,
            s_contigs.parts.len(),
            s_details.parts.len()
        ));
    }
    let mut names: Vec<Vec<String>> = Vec::new();
    let mut descs: Vec<Vec<Vec<Desc>>> = Vec::new();
    for b in 0..want_batches {
        let (meta, data) = c.part(s_contigs, b)?;
        let raw = zstd_decode(data)?;
        if raw.len() as u64 != meta {
            return Err("collection-contigs: metadata != raw size".into());
        }
        let nb = decode_contig_names(&raw)?;
        let (_, data) = c.part(s_details, b)?;
        let streams = unpack_details_part(data)?;
        let db = decode_details(&streams, facts.segment_size, facts.k)?;
        if nb.len() != db.len() {
            return Err("batch: names and details disagree on sample count".into());
        }
        let expect = if b + 1 < want_batches { PACK } else { n - b * PACK };
        if nb.len() != expect {
            return Err(format!("batch {} holds {} samples, expected {}", b, nb.len(), expect));
        }
        names.extend(nb);
        descs.extend(db);
    }
    if want_batches > 1 {
        classes.push("meta-batches>1");
    }

    // segment streams: every x…r / x…d name must round-trip the id coding
    let mut ref_parts: BTreeMap<u32, usize> = BTreeMap::new();
    let mut delta_parts: BTreeMap<u32, usize> = BTreeMap::new();
    for s in &c.streams {
        if let Some(rest) = s.name.strip_prefix('x') {
            let (idpart, kind) = rest.split_at(rest.len().saturating_sub(1));
            let id = parse_b64_id(idpart).ok_or_else(|| format!("stream name {:?}: bad id", s.name))?;
            if b64_id(id) != idpart {
                return Err(format!("stream name {:?} is not the canonical coding of {}", s.name, id));
            }
            match kind {
                "r" => {
                    ref_parts.insert(id, s.parts.len());
                }
                "d" => {
                    delta_parts.insert(id, s.parts.len());
                }
                _ => return Err(format!("stream name {:?}: unknown kind", s.name)),
            }
        }
    }

    // cache of decoded references and packs
    let mut refs: BTreeMap<u32, Vec<u8>> = BTreeMap::new();
    let mut packs: BTreeMap<(u32, usize), Vec<Vec<u8>>> = BTreeMap::new();
    let mut used_lz = std::collections::BTreeSet::new();
    let mut used_raw = std::collections::BTreeSet::new();
    let mut seen_desc: BTreeMap<(u32, u32), u32> = BTreeMap::new();

    let mut load_pack = |g: u32, p: usize, classes: &mut Vec<&'static str>| -> R<Vec<Vec<u8>>> {
        if let Some(v) = packs.get(&(g, p)) {
            return Ok(v.clone());
        }
        let name = format!("x{}d", b64_id(g));
        let s = c.stream(&name).ok_or_else(|| format!("no delta stream {} for group {}", name, g))?;
        let (meta, data) = c.part(s, p)?;
        let (raw, kind) = decode_payload(meta, data)?;
        match kind {
            PartKind::StoredRaw => classes.push("pack-stored-raw"),
            PartKind::PlainZstd => classes.push("pack-zstd"),
            PartKind::TupleZstd => return Err(format!("pack {} of group {} is tuple-packed (marker 1)", p, g)),
        }
        if p >= 1 {
            classes.push("second-pack");
        }
        let entries: Vec<Vec<u8>> = split_pack(&raw)?.into_iter().map(|e| e.to_vec()).collect();
        if entries.len() > PACK {
            return Err(format!("pack {} of group {} has {} entries (> 50)", p, g, entries.len()));
        }
        packs.insert((g, p), entries.clone());
        Ok(entries)
    };

    for (si, (cn, cd)) in names.iter().zip(descs.iter()).enumerate() {
        if cn.len() != cd.len() {
            return Err(format!("sample {}: {} names vs {} descriptor lists", si, cn.len(), cd.len()));
        }
        let mut sample_out = Vec::new();
        for (name, dlist) in cn.iter().zip(cd.iter()) {
            let mut bases: Vec<u8> = Vec::new();
            for (i, d) in dlist.iter().enumerate() {
                facts.max_in_group_id = facts.max_in_group_id.max(d.in_group);
                let seg: Vec<u8> = if d.group < RAW_GROUPS {
                    used_raw.insert(d.group);
                    if ref_parts.get(&d.group).copied().unwrap_or(0) != 0 {
                        return Err(format!("raw group {} has reference parts", d.group));
                    }
                    let p = d.in_group as usize / PACK;
                    let e = d.in_group as usize % PACK;
                    let entries = load_pack(d.group, p, &mut classes)?;
                    if p == 0 {
                        if entries.first().map(|v| v.as_slice()) != Some(&[0x7f][..]) {
                            return Err(format!("raw group {}: entry 0 of pack 0 is not the 0x7f placeholder", d.group));
                        }
                        if e == 0 {
                            return Err(format!("raw group {}: descriptor addresses the placeholder", d.group));
                        }
                    }
                    classes.push("raw-group-segment");
                    entries.get(e).cloned().ok_or_else(|| format!("raw group {} pack {} has no entry {}", d.group, p, e))?
                } else {
                    used_lz.insert(d.group);
                    if !refs.contains_key(&d.group) {
                        if ref_parts.get(&d.group).copied() != Some(1) {
                            return Err(format!(
                                "LZ group {} has {:?} reference parts, expected exactly 1",
                                d.group,
                                ref_parts.get(&d.group)
                            ));
                        }
                        let s = c.stream(&format!("x{}r", b64_id(d.group))).unwrap();
                        let (meta, data) = c.part(s, 0)?;
                        let (raw, kind) = decode_payload(meta, data)?;
                        classes.push(match kind {
                            PartKind::StoredRaw => "ref-stored-raw",
                            PartKind::PlainZstd => "ref-marker0",
                            PartKind::TupleZstd => "ref-marker1",
                        });
                        refs.insert(d.group, raw);
                    }
                    let reference = refs.get(&d.group).unwrap().clone();
                    if d.in_group == 0 {
                        classes.push("same-as-reference");
                        reference
                    } else {
                        let p = (d.in_group as usize - 1) / PACK;
                        let e = (d.in_group as usize - 1) % PACK;
                        let entries = load_pack(d.group, p, &mut classes)?;
                        let text = entries
                            .get(e)
                            .ok_or_else(|| format!("LZ group {} pack {} has no entry {} (id {})", d.group, p, e, d.in_group))?;
                        classes.push("lz-delta");
                        lz_decode(&reference, text, facts.min_match)?
                    }
                };
                if seg.len() != d.raw_len as usize {
                    return Err(format!(
                        "contig {:?} segment {}: descriptor raw length {} != decoded length {} (group {}, id {})",
                        name,
                        i,
                        d.raw_len,
                        seg.len(),
                        d.group,
                        d.in_group
                    ));
                }
                if d.in_group > 0 || d.group < RAW_GROUPS {
                    if let Some(_prev) = seen_desc.insert((d.group, d.in_group), d.raw_len) {
                        classes.push("dedup-shared-entry");
                    }
                }
                let seg = if d.rc {
                    classes.push("revcomp-segment");
                    revcomp_codes(&seg)
                } else {
                    seg
                };
                if i == 0 {
                    bases.extend_from_slice(&seg);
                } else {
                    if seg.len() < facts.k as usize {
                        return Err(format!("contig {:?} segment {} shorter than k", name, i));
                    }
                    let ov = facts.k as usize;
                    // informational only: the format does not promise it and readers just skip k bases
                    if bases.len() < ov || bases[bases.len() - ov..] != seg[..ov] {
                        classes.push("overlap-differs");
                    }
                    bases.extend_from_slice(&seg[ov..]);
                }
            }
            if dlist.len() >= 3 {
                classes.push("contig>=3seg");
            }
            sample_out.push((name.clone(), dlist.clone(), bases));
        }
        facts.contigs.push(sample_out);
    }
    if facts.contigs.len() != facts.samples.len() {
        return Err("sample count differs between names and tables".into());
    }
    if facts.max_in_group_id as usize > PACK {
        classes.push("in-group-id>50");
    }
    facts.n_lz_groups = used_lz.len();
    facts.n_raw_groups_used = used_raw.len();
    classes.sort();
    classes.dedup();
    facts.classes = classes;
    Ok(facts)
}
