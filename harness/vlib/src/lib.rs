pub mod agcref;
pub mod children;
pub mod driver;
pub mod engine;
pub mod known;
pub mod naive;
pub mod props;
pub mod util;
