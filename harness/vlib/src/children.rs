//! Helper processes the checks re-execute themselves as (crash isolation,
//! resource limits, the overflow-checked twin build of this same binary).

use crate::engine::{guarded, install_panic_hook};
use ragc_common::Archive;
use ragc_core::{Decompressor, DecompressorConfig};
use serde_json::json;
use std::io::Write;
use std::path::PathBuf;

fn arg(args: &[String], flag: &str) -> Option<String> {
    args.iter().position(|a| a == flag).and_then(|i| args.get(i + 1).cloned())
}

pub fn set_rlimit_as(bytes: u64) {
    let lim = libc::rlimit { rlim_cur: bytes, rlim_max: bytes };
    unsafe {
        libc::setrlimit(libc::RLIMIT_AS, &lim);
    }
}

pub fn child_main(args: &[String]) -> i32 {
    unsafe {
        libc::prctl(libc::PR_SET_PDEATHSIG, libc::SIGKILL);
    }
    match args.first().map(|s| s.as_str()) {
        Some("prefixes") => prefixes(&args[1..]),
        Some("estimate") => crate::props::c18::estimate_child(&args[1..]),
        Some("extract") => extract(&args[1..]),
        Some("queries") => queries(&args[1..]),
        Some("create") => create(&args[1..]),
        Some("pipeline") => crate::pipecheck::child_main(&args[1..]),
        _ => {
            eprintln!("unknown child {:?}", args.first());
            2
        }
    }
}

/// `create <params.json> <out> <inputs…>`: the library create path; prints `finalize-ok` or
/// `finalize-err: …` and exits 0 in both cases (a crash is then distinguishable).
fn create(args: &[String]) -> i32 {
    install_panic_hook();
    let p: crate::gen::Params = match std::fs::read_to_string(&args[0]).ok().and_then(|t| serde_json::from_str(&t).ok()) {
        Some(p) => p,
        None => {
            eprintln!("bad params file");
            return 2;
        }
    };
    let out = PathBuf::from(&args[1]);
    let inputs: Vec<PathBuf> = args[2..].iter().map(PathBuf::from).collect();
    match guarded(|| crate::pipeline::create_inproc(&p, &inputs, &out, &Default::default())) {
        Ok(Ok(())) => println!("finalize-ok"),
        Ok(Err(e)) => println!("finalize-err: {}", e.replace('\n', " ")),
        Err(p) => println!("finalize-panic: {}", p),
    }
    0
}

/// `extract <archive>`: print the sha256 of the full extraction (or the error class); used to
/// compare build profiles.
fn extract(args: &[String]) -> i32 {
    install_panic_hook();
    let a = PathBuf::from(&args[0]);
    let r = guarded(|| crate::pipeline::read_all(&a));
    let line = match r {
        Ok(Ok(v)) => format!("ok {}", crate::util::sha256_hex(format!("{:?}", v).as_bytes())),
        Ok(Err(e)) => format!("err {}", e.lines().next().unwrap_or("")),
        Err(p) => format!("panic {}", p),
    };
    println!("{}", line);
    0
}

/// `queries <archive>`: every read-side query of the library on every sample / contig (lengths,
/// ranges around the ends, descriptor tables, group statistics, reference segments); prints
/// `ok <sha256 of the transcript>` or the panic. Used to compare build profiles.
fn queries(args: &[String]) -> i32 {
    install_panic_hook();
    let path = args[0].clone();
    let r = guarded(|| -> Result<String, String> {
        let mut d = Decompressor::open(&path, DecompressorConfig { verbosity: 0 }).map_err(|e| format!("open failed: {:#}", e))?;
        let mut t = String::new();
        let mut groups: Vec<u32> = Vec::new();
        for s in d.list_samples().into_iter().take(130) {
            let contigs = d.list_contigs(&s).map_err(|e| format!("list_contigs: {:#}", e))?;
            for c in contigs.iter().take(40) {
                let len = d.get_contig_length(&s, c).map_err(|e| format!("get_contig_length: {:#}", e))?;
                t.push_str(&format!("{} {} len={}\n", s, c, len));
                for (a, b) in [(0usize, len), (len / 3, 2 * len / 3 + 1), (len.saturating_sub(1), len + 5), (5, 5), (0, 1), (len, len + 1)] {
                    let r = d.get_contig_range(&s, c, a, b).map(|v| crate::util::sha256_hex(&v)[..12].to_string()).unwrap_or_else(|_| "err".into());
                    t.push_str(&format!("  [{},{}) {}\n", a, b, r));
                }
                if let Ok(ds) = d.get_contig_segments_desc(&s, c) {
                    for x in &ds {
                        t.push_str(&format!("  seg {} {} {} {}\n", x.group_id, x.in_group_id, x.is_rev_comp, x.raw_length));
                        groups.push(x.group_id);
                    }
                }
            }
        }
        t.push_str(&format!("all_segments {}\n", d.get_all_segments().map(|v| v.len() as i64).unwrap_or(-1)));
        t.push_str(&format!("group_stats {}\n", d.get_group_statistics().map(|v| format!("{:?}", v)).map(|x| crate::util::sha256_hex(x.as_bytes())[..12].to_string()).unwrap_or_else(|_| "err".into())));
        groups.sort_unstable();
        groups.dedup();
        for g in groups.iter().take(24) {
            let r = d.get_reference_segment(*g).map(|v| crate::util::sha256_hex(&v)[..12].to_string()).unwrap_or_else(|_| "err".into());
            t.push_str(&format!("ref {} {}\n", g, r));
        }
        Ok(t)
    });
    let line = match r {
        Ok(Ok(t)) => format!("ok {}", crate::util::sha256_hex(t.as_bytes())),
        Ok(Err(e)) => format!("err {}", e.lines().next().unwrap_or("")),
        Err(p) => format!("panic {}", p),
    };
    println!("{}", line);
    0
}

/// Try every prefix length in `from, from-stride, … >= to` of `archive` (work file is truncated
/// in place, descending). For each: Archive::open and Decompressor::open must return an error.
fn prefixes(args: &[String]) -> i32 {
    install_panic_hook();
    let work = PathBuf::from(arg(args, "--work").expect("--work"));
    let from: u64 = arg(args, "--from").and_then(|s| s.parse().ok()).expect("--from");
    let to: u64 = arg(args, "--to").and_then(|s| s.parse().ok()).expect("--to");
    let stride: u64 = arg(args, "--stride").and_then(|s| s.parse().ok()).unwrap_or(1).max(1);
    let dense_tail: u64 = arg(args, "--dense-tail").and_then(|s| s.parse().ok()).unwrap_or(0);
    let full_len: u64 = arg(args, "--full-len").and_then(|s| s.parse().ok()).unwrap_or(from + 1);
    let progress = PathBuf::from(arg(args, "--progress").expect("--progress"));
    let out = PathBuf::from(arg(args, "--out").expect("--out"));
    set_rlimit_as(4 << 30);
    let file = std::fs::OpenOptions::new().write(true).open(&work).expect("open work file");
    let mut pf = std::fs::OpenOptions::new().create(true).write(true).truncate(true).open(&progress).expect("progress file");
    let mut tried = 0u64;
    let mut class_a = 0u64; // last 8 bytes as length >= 2^63
    let mut class_b = 0u64; // < 2^63 but > file size
    let mut class_c = 0u64; // <= file size
    let mut short = 0u64; // fewer than 8 bytes
    let mut archive_open_ok = 0u64;
    let mut violations: Vec<serde_json::Value> = Vec::new();
    let wpath = work.to_string_lossy().to_string();
    let mut n = from as i64;
    while n >= to as i64 {
        let len = n as u64;
        // dense near both ends of the file, strided in between
        let near_end = full_len - len <= dense_tail || len <= dense_tail;
        if stride > 1 && !near_end && len % stride != 0 {
            n -= 1;
            continue;
        }
        file.set_len(len).expect("truncate");
        use std::io::Seek;
        pf.seek(std::io::SeekFrom::Start(0)).ok();
        let _ = pf.write_all(format!("{:<20}", len).as_bytes());
        tried += 1;
        if len < 8 {
            short += 1;
        } else {
            let bytes = std::fs::read(&work).map(|b| b[b.len() - 8..].to_vec()).unwrap_or_default();
            if bytes.len() == 8 {
                let v = u64::from_le_bytes(bytes.try_into().unwrap());
                if v >= 1 << 63 {
                    class_a += 1;
                } else if v > len {
                    class_b += 1;
                } else {
                    class_c += 1;
                }
            }
        }
        let r1 = guarded(|| {
            let mut a = Archive::new_reader();
            a.open(&work).is_ok()
        });
        match r1 {
            Ok(true) => archive_open_ok += 1,
            Ok(false) => {}
            Err(p) => {
                if violations.len() < 20 {
                    violations.push(json!({"prefix": len, "what": format!("Archive::open panicked: {}", p)}));
                }
            }
        }
        let r2 = guarded(|| match Decompressor::open(&wpath, DecompressorConfig { verbosity: 0 }) {
            Err(_) => None,
            Ok(mut d) => {
                let samples = d.list_samples();
                let readable = samples.iter().filter(|s| d.get_sample(s).is_ok()).count();
                Some((samples.len(), readable))
            }
        });
        match r2 {
            Ok(None) => {}
            Ok(Some((ns, readable))) => {
                if violations.len() < 20 {
                    violations.push(json!({"prefix": len, "what": format!("Decompressor::open returned a handle ({} samples listed, {} readable)", ns, readable)}));
                }
            }
            Err(p) => {
                if violations.len() < 20 {
                    violations.push(json!({"prefix": len, "what": format!("Decompressor::open panicked: {}", p)}));
                }
            }
        }
        n -= 1;
    }
    let res = json!({
        "tried": tried, "class_ge_2_63": class_a, "class_gt_file": class_b, "class_le_file": class_c, "shorter_than_8": short,
        "archive_open_ok": archive_open_ok, "violations": violations,
    });
    std::fs::write(&out, res.to_string()).expect("write result");
    0
}
