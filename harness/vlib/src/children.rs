//! Helper processes the checks re-execute themselves as (crash isolation,
//! resource limits, the overflow-checked twin build).

pub fn child_main(args: &[String]) -> i32 {
    match args.first().map(|s| s.as_str()) {
        _ => {
            eprintln!("unknown child {:?}", args.first());
            2
        }
    }
}
