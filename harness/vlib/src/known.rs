//! known_findings.json: genuine defects that were recorded rather than
//! repaired ("open"), and repaired ones ("fixed", which suppress nothing).
//! The file is read-only at run time.

use serde::{Deserialize, Serialize};
use std::path::Path;

#[derive(Clone, Debug, Serialize, Deserialize)]
pub struct Finding {
    /// stable identifier used by the checks, e.g. "C17-batch-noop"
    pub id: String,
    pub property: String,
    /// "open" or "fixed"
    pub status: String,
    /// the specific input / call site / history that fails
    pub signature: String,
    pub what: String,
    #[serde(default)]
    pub commit: Option<String>,
}

#[derive(Clone, Debug, Default, Serialize, Deserialize)]
pub struct KnownFindings {
    #[serde(default)]
    pub findings: Vec<Finding>,
}

impl KnownFindings {
    pub fn load(verif_dir: &Path) -> KnownFindings {
        let p = verif_dir.join("known_findings.json");
        match std::fs::read_to_string(&p) {
            Ok(s) => serde_json::from_str(&s).unwrap_or_else(|e| {
                eprintln!("known_findings.json does not parse: {}", e);
                KnownFindings::default()
            }),
            Err(_) => KnownFindings::default(),
        }
    }
    /// true iff `id` is listed and still open
    pub fn is_open(&self, id: &str) -> bool {
        self.findings.iter().any(|f| f.id == id && f.status == "open")
    }
    pub fn what(&self, id: &str) -> String {
        self.findings.iter().find(|f| f.id == id).map(|f| f.what.clone()).unwrap_or_default()
    }
}
