//! Rendering a `Collection` into input files under a given presentation, the
//! independent normaliser that says what extraction must return, and a small
//! FASTA parser for the CLI's output.

use crate::gen::{Collection, Presentation};
use crate::util::SplitMix;
use std::io::Write;
use std::path::{Path, PathBuf};

/// What extraction has to return: per sample (name, [(header, bases)])
pub type Expected = Vec<(String, Vec<(String, String)>)>;

/// Documented normalisation: bytes <= 64 are dropped, letters are upper-cased,
/// IUPAC letters (ACGTNRYSWKMBDHVU) are kept, every other letter reads back as N.
pub fn normalise_sequence(raw: &[u8]) -> String {
    let mut out = String::with_capacity(raw.len());
    for &b in raw {
        if b <= 64 {
            continue;
        }
        let u = b.to_ascii_uppercase();
        if b"ACGTNRYSWKMBDHVU".contains(&u) {
            out.push(u as char);
        } else {
            out.push('N');
        }
    }
    out
}

pub fn expected_of(c: &Collection) -> Expected {
    c.samples.iter().map(|s| (s.name.clone(), s.contigs.iter().map(|r| (r.header.clone(), normalise_sequence(r.seq.as_bytes()))).collect())).collect()
}

fn render_records(records: &[(String, String)], p: &Presentation, salt: u64) -> Vec<u8> {
    let nl: &[u8] = if p.crlf { b"\r\n" } else { b"\n" };
    let mut r = SplitMix::new(p.case_seed ^ salt);
    let mut out = Vec::new();
    for (i, (h, s)) in records.iter().enumerate() {
        out.push(b'>');
        out.extend_from_slice(h.as_bytes());
        out.extend_from_slice(nl);
        let seq: Vec<u8> = match p.case_mode {
            0 => s.as_bytes().to_vec(),
            1 => s.bytes().map(|c| c.to_ascii_lowercase()).collect(),
            _ => s.bytes().map(|c| if r.next() & 1 == 0 { c.to_ascii_lowercase() } else { c }).collect(),
        };
        let last = i + 1 == records.len();
        if p.width == 0 {
            out.extend_from_slice(&seq);
            if !last || p.final_newline {
                out.extend_from_slice(nl);
            }
        } else {
            let n = seq.chunks(p.width as usize).count();
            for (j, chunk) in seq.chunks(p.width as usize).enumerate() {
                out.extend_from_slice(chunk);
                if !(last && j + 1 == n) || p.final_newline {
                    out.extend_from_slice(nl);
                }
            }
        }
    }
    out
}

fn gz_member(data: &[u8]) -> Vec<u8> {
    let mut e = flate2::write::GzEncoder::new(Vec::new(), flate2::Compression::fast());
    e.write_all(data).unwrap();
    e.finish().unwrap()
}

pub fn encode_file(text: &[u8], p: &Presentation) -> Vec<u8> {
    match p.gz {
        0 => text.to_vec(),
        1 => gz_member(text),
        _ => {
            // multi-member (bgzip style): member boundaries anywhere, also inside a header
            let mut cuts: Vec<usize> = p.cuts.iter().map(|&c| (c as usize * text.len()) >> 16).collect();
            // a quarter of the files: members end exactly at record boundaries (`cat` of per-record .gz
            // files, bgzip blocks flushed per record); another quarter: at line boundaries
            match p.case_seed & 3 {
                1 => {
                    for c in cuts.iter_mut() {
                        if let Some(off) = text[*c..].windows(2).position(|w| w == b"\n>") {
                            *c += off + 1;
                        }
                    }
                }
                2 => {
                    for c in cuts.iter_mut() {
                        if let Some(off) = text[*c..].iter().position(|&b| b == b'\n') {
                            *c += off + 1;
                        }
                    }
                }
                _ => {}
            }
            cuts.push(0);
            cuts.push(text.len());
            cuts.sort_unstable();
            cuts.dedup();
            let mut out = Vec::new();
            for w in cuts.windows(2) {
                out.extend_from_slice(&gz_member(&text[w[0]..w[1]]));
            }
            if out.is_empty() {
                out = gz_member(b"");
            }
            out
        }
    }
}

pub fn extension(p: &Presentation) -> String {
    // the sample-name rule is "file stem minus .fa/.fasta": `x.fna.gz` would be sample `x.fna`,
    // so .fna is only used uncompressed (stem `x`)
    let base = match (p.ext, p.gz) {
        (0, _) => "fa",
        (1, _) => "fasta",
        (_, 0) => "fna",
        _ => "fa",
    };
    if p.gz == 0 {
        base.to_string()
    } else {
        format!("{}.gz", base)
    }
}

/// Write the input files; returns them in command-line order.
pub fn write_inputs(c: &Collection, dir: &Path) -> std::io::Result<Vec<PathBuf>> {
    write_inputs_as(c, dir, &c.pres, c.params.single_file)
}

pub fn write_inputs_as(c: &Collection, dir: &Path, p: &Presentation, single_file: bool) -> std::io::Result<Vec<PathBuf>> {
    std::fs::create_dir_all(dir)?;
    let ext = extension(p);
    let mut files = Vec::new();
    if single_file {
        let mut records = Vec::new();
        for s in &c.samples {
            for r in &s.contigs {
                records.push((r.header.clone(), r.seq.clone()));
            }
        }
        let text = render_records(&records, p, 0);
        let path = dir.join(format!("pan.{}", ext));
        std::fs::write(&path, encode_file(&text, p))?;
        files.push(path);
    } else {
        let mut late: Option<(usize, Vec<(String, String)>)> = None;
        for (i, s) in c.samples.iter().enumerate() {
            let mut records: Vec<(String, String)> = s.contigs.iter().map(|r| (r.header.clone(), r.seq.clone())).collect();
            if let Some((rs, from)) = c.revisit {
                if c.pansn && rs as usize == i && (from as usize) < records.len() {
                    late = Some((i, records.split_off(from as usize)));
                }
            }
            let text = render_records(&records, p, i as u64 + 1);
            // the file stem is the sample name unless the headers are PanSN (then the header wins)
            let stem = if c.pansn { format!("file{}", i) } else { s.name.clone() };
            let path = dir.join(format!("{}.{}", stem, ext));
            std::fs::write(&path, encode_file(&text, p))?;
            files.push(path);
        }
        if let Some((i, records)) = late {
            let text = render_records(&records, p, 1000 + i as u64);
            let path = dir.join(format!("file{}-more.{}", i, ext));
            std::fs::write(&path, encode_file(&text, p))?;
            files.push(path);
        }
    }
    Ok(files)
}

/// Parse FASTA as written by `ragc getset` (header line, sequence lines).
pub fn parse_fasta(text: &[u8]) -> Vec<(String, String)> {
    let mut out: Vec<(String, String)> = Vec::new();
    for line in text.split(|&b| b == b'\n') {
        let line = if line.last() == Some(&b'\r') { &line[..line.len() - 1] } else { line };
        if line.first() == Some(&b'>') {
            out.push((String::from_utf8_lossy(&line[1..]).to_string(), String::new()));
        } else if let Some(last) = out.last_mut() {
            last.1.push_str(&String::from_utf8_lossy(line));
        }
    }
    out
}

pub fn first_difference(a: &Expected, b: &Expected) -> Option<String> {
    if a.len() != b.len() {
        return Some(format!("{} samples vs {} ({:?} vs {:?})", a.len(), b.len(), a.iter().map(|s| &s.0).take(6).collect::<Vec<_>>(), b.iter().map(|s| &s.0).take(6).collect::<Vec<_>>()));
    }
    for (i, (sa, sb)) in a.iter().zip(b.iter()).enumerate() {
        if sa.0 != sb.0 {
            return Some(format!("sample {}: name {:?} vs {:?}", i, sa.0, sb.0));
        }
        if sa.1.len() != sb.1.len() {
            return Some(format!("sample {:?}: {} contigs vs {}", sa.0, sa.1.len(), sb.1.len()));
        }
        for (j, (ca, cb)) in sa.1.iter().zip(sb.1.iter()).enumerate() {
            if ca.0 != cb.0 {
                return Some(format!("sample {:?} contig {}: name {:?} vs {:?}", sa.0, j, ca.0, cb.0));
            }
            if ca.1 != cb.1 {
                let at = ca.1.bytes().zip(cb.1.bytes()).position(|(x, y)| x != y).unwrap_or(ca.1.len().min(cb.1.len()));
                let ctx = |s: &str| s.get(at.saturating_sub(6)..(at + 6).min(s.len())).unwrap_or("").to_string();
                return Some(format!(
                    "sample {:?} contig {:?}: bases differ at {} (lengths {} vs {}): …{}… vs …{}…",
                    sa.0,
                    ca.0,
                    at,
                    ca.1.len(),
                    cb.1.len(),
                    ctx(&ca.1),
                    ctx(&cb.1)
                ));
            }
        }
    }
    None
}
