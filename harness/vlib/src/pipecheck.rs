//! One in-process create with hooks on, executed in a child process: seeded
//! perturbation at the hook points, producer-side delays, the event log, a
//! watchdog that distinguishes "provably stuck" from "slow".

use crate::engine::{guarded, install_panic_hook};
use crate::gen::Params;
use crate::pipeline::{create_inproc, InprocOpts};
use crate::util::{mix, sha256_hex};
use ragc_core::verif_hooks as vh;
use serde::{Deserialize, Serialize};
use std::path::PathBuf;
use std::sync::atomic::{AtomicU64, Ordering};
use std::sync::Arc;
use std::time::{Duration, Instant};

#[derive(Clone, Debug, Hash, PartialEq, Eq, Serialize, Deserialize)]
pub struct Schedule {
    pub threads: u32,
    pub queue_capacity: u64,
    /// producer sleeps before pushes (cyclic), microseconds
    pub push_delays_us: Vec<u32>,
    pub extra_sync_every: u32,
    /// worker-side perturbation: seed and probability (ppm) of a pause at a hook point
    pub perturb_seed: u64,
    pub perturb_ppm: u32,
    pub max_pause_us: u32,
}

#[derive(Clone, Debug, Serialize, Deserialize)]
pub struct Spec {
    pub params: Params,
    pub schedule: Schedule,
    pub inputs: Vec<PathBuf>,
    pub out: PathBuf,
    pub watchdog_s: u64,
}

#[derive(Clone, Debug, Default, Serialize, Deserialize)]
pub struct Outcome {
    /// "ok", "err: …", "panic: …", "stuck: …", "slow"
    pub status: String,
    pub sha256: Option<String>,
    pub size: u64,
    pub wall_ms: u64,
    pub rounds: u64,
    pub contigs_pulled: u64,
    pub producer_waits: u64,
    pub tokens_behind_contigs: bool,
    pub log_problems: Vec<String>,
    pub events: u64,
}

static EVENTS_SEEN: AtomicU64 = AtomicU64::new(0);

/// Analyse the event log of a finished (or stuck) run.
fn analyse(log: &[vh::Event], threads: usize, finished: bool) -> (u64, u64, u64, bool, Vec<String>) {
    let mut problems = Vec::new();
    let mut token_pulls = 0u64;
    let mut contigs = 0u64;
    let mut producer_waits = 0u64;
    let mut arrive: std::collections::BTreeMap<(u64, u64), u64> = Default::default(); // (worker, barrier#) -> count
    let mut leave: std::collections::BTreeMap<(u64, u64), u64> = Default::default();
    let mut exited: std::collections::BTreeSet<u64> = Default::default();
    let mut closed = false;
    let mut tokens_behind = false;
    let mut queued_contigs = 0i64;
    for e in log {
        match e.kind {
            "pulled-token" => {
                token_pulls += 1;
                if exited.contains(&e.a) {
                    problems.push(format!("worker {} pulled a token after it exited", e.a));
                }
            }
            "pulled-contig" => contigs += 1,
            "barrier-arrive" => *arrive.entry((e.a, e.b)).or_insert(0) += 1,
            "barrier-leave" => *leave.entry((e.a, e.b)).or_insert(0) += 1,
            "worker-exit" => {
                exited.insert(e.a);
            }
            "push-wait" => producer_waits += 1,
            "admit" => {
                if closed {
                    problems.push("an item was admitted after the queue was closed".into());
                }
                if e.a == 0 && queued_contigs > 0 {
                    tokens_behind = true; // a token queued behind contigs
                }
                if e.a > 0 {
                    queued_contigs += 1;
                }
            }
            "take" => {
                if e.a > 0 {
                    queued_contigs -= 1;
                }
            }
            "close" => closed = true,
            _ => {}
        }
    }
    let rounds = if threads > 0 { token_pulls / threads as u64 } else { 0 };
    if finished {
        if token_pulls % threads as u64 != 0 {
            problems.push(format!("{} token pulls are not a multiple of {} workers", token_pulls, threads));
        }
        for w in 0..threads as u64 {
            for b in 1..=4u64 {
                let a = arrive.get(&(w, b)).copied().unwrap_or(0);
                let l = leave.get(&(w, b)).copied().unwrap_or(0);
                if a != rounds || l != rounds {
                    problems.push(format!("worker {} barrier {}: {} arrivals / {} departures for {} rounds", w, b, a, l, rounds));
                }
            }
            if !exited.contains(&w) {
                problems.push(format!("worker {} never logged its exit", w));
            }
        }
        if !closed {
            problems.push("the queue was never closed".into());
        }
    }
    problems.truncate(8);
    (rounds, contigs, producer_waits, tokens_behind, problems)
}

/// Is every live thread blocked in a wait that cannot be satisfied any more?
fn stuck_proof(log: &[vh::Event], threads: usize) -> Option<String> {
    let mut last: std::collections::BTreeMap<u64, &vh::Event> = Default::default();
    let mut exited_workers = 0usize;
    for e in log {
        last.insert(e.thread, e);
        if e.kind == "worker-exit" {
            exited_workers += 1;
        }
    }
    let mut at_barrier = 0usize;
    let mut in_pull_wait = 0usize;
    let mut producer_wait: Option<&vh::Event> = None;
    let mut other = Vec::new();
    for (_, e) in &last {
        match e.kind {
            "barrier-arrive" => at_barrier += 1,
            "pull-wait" => in_pull_wait += 1,
            "push-wait" => producer_wait = Some(e),
            "worker-exit" => {}
            k => other.push(k),
        }
    }
    // queue state from the last queue event
    let qstate = log.iter().rev().find(|e| matches!(e.kind, "admit" | "take" | "push-wait" | "push-wake" | "pull-wait" | "pull-wake" | "close" | "pull-none"));
    let (qlen, qbytes) = qstate.map(|e| (e.b, e.c)).unwrap_or((0, 0));
    if !other.is_empty() {
        return None; // some thread's last event is not a blocking wait: cannot prove anything
    }
    if let Some(p) = producer_wait {
        if in_pull_wait == 0 && at_barrier + exited_workers >= threads.min(at_barrier + exited_workers) && (at_barrier > 0 || qlen == 0) {
            return Some(format!(
                "producer waits for space for {} bytes (queue: {} items, {} bytes) while {} workers wait at a barrier, {} wait on the empty queue, {} exited",
                p.a, qlen, qbytes, at_barrier, in_pull_wait, exited_workers
            ));
        }
        if qlen == 0 {
            return Some(format!("producer waits for space for {} bytes although the queue is empty ({} bytes): the wake-up condition can never become true", p.a, qbytes));
        }
        return None;
    }
    if at_barrier > 0 && at_barrier + exited_workers + in_pull_wait >= threads && at_barrier < threads {
        return Some(format!("{} of {} workers wait at a barrier that can no longer fill ({} exited, {} wait on the queue with {} items)", at_barrier, threads, exited_workers, in_pull_wait, qlen));
    }
    None
}

/// (tid, state, voluntary + involuntary context switches, CPU clock ticks) of every thread of this
/// process except the caller
fn thread_snapshot() -> Vec<(u64, char, u64, u64)> {
    let me = unsafe { libc::syscall(libc::SYS_gettid) } as u64;
    let mut v = Vec::new();
    if let Ok(rd) = std::fs::read_dir("/proc/self/task") {
        for e in rd.flatten() {
            let Some(tid) = e.file_name().to_str().and_then(|s| s.parse::<u64>().ok()) else { continue };
            if tid == me {
                continue;
            }
            let Ok(st) = std::fs::read_to_string(e.path().join("status")) else { continue };
            let mut state = '?';
            let mut sw = 0u64;
            for l in st.lines() {
                if let Some(x) = l.strip_prefix("State:") {
                    state = x.trim().chars().next().unwrap_or('?');
                } else if let Some(x) = l.strip_prefix("voluntary_ctxt_switches:").or_else(|| l.strip_prefix("nonvoluntary_ctxt_switches:")) {
                    sw += x.trim().parse::<u64>().unwrap_or(0);
                }
            }
            // utime + stime: fields 14 and 15 of stat, counted after the ")" that ends the command name
            let ticks = std::fs::read_to_string(e.path().join("stat"))
                .ok()
                .and_then(|t| t.rfind(')').map(|i| t[i + 1..].split_whitespace().map(|x| x.to_string()).collect::<Vec<_>>()))
                .map(|f| f.get(11).and_then(|x| x.parse::<u64>().ok()).unwrap_or(0) + f.get(12).and_then(|x| x.parse::<u64>().ok()).unwrap_or(0))
                .unwrap_or(0);
            v.push((tid, state, sw, ticks));
        }
    }
    v.sort();
    v
}

/// OS-level proof of a stuck process, independent of which lock or wait is involved. Over three
/// samples 2.5 s apart: the event log has not grown; every other thread of this process is asleep
/// in the kernel ('S') at each sample; and each thread either has unchanged context-switch counters
/// (it sits in an indefinite wait) or has used at most 2 clock ticks of CPU in the whole window (it
/// only sleep-polls: ragc's two polling loops, drain() and sync_and_flush(), sleep 10-100 ms and
/// merely read the queue length - they wake nobody). Nothing in the child waits for input from
/// outside and the caller (the watchdog) wakes nobody, so no thread can ever do useful work again.
/// A merely slow run has a thread that is runnable ('R'), in disk wait ('D'), or burning CPU.
pub fn os_stuck_proof() -> Option<String> {
    let s0 = thread_snapshot();
    let l0 = vh::log_len();
    if s0.is_empty() || s0.iter().any(|t| t.1 != 'S') {
        return None;
    }
    let mut last = s0.clone();
    for _ in 0..2 {
        std::thread::sleep(Duration::from_millis(2500));
        let s = thread_snapshot();
        if vh::log_len() != l0 || s.len() != s0.len() || s.iter().zip(s0.iter()).any(|(a, b)| a.0 != b.0 || a.1 != 'S') {
            return None;
        }
        last = s;
    }
    let mut pollers = 0usize;
    for (a, b) in s0.iter().zip(last.iter()) {
        if a.2 != b.2 {
            if b.3.saturating_sub(a.3) > 2 {
                return None; // it runs and uses CPU: alive
            }
            pollers += 1;
        }
    }
    Some(format!(
        "none of the {} threads of the pipeline process did any work during 5 s: {} are asleep in the kernel with unchanged context-switch counters, {} only sleep-poll (<= 2 clock ticks of CPU), and no event was logged",
        s0.len(),
        s0.len() - pollers,
        pollers
    ))
}

fn last_events(log: &[vh::Event]) -> String {
    let mut last: std::collections::BTreeMap<u64, &vh::Event> = Default::default();
    for e in log {
        last.insert(e.thread, e);
    }
    let mut kinds: std::collections::BTreeMap<&str, usize> = Default::default();
    for e in last.values() {
        *kinds.entry(e.kind).or_insert(0) += 1;
    }
    kinds.iter().map(|(k, n)| format!("{} x {}", n, k)).collect::<Vec<_>>().join(", ")
}

pub fn child_main(args: &[String]) -> i32 {
    install_panic_hook();
    let Some(spec) = std::fs::read_to_string(&args[0]).ok().and_then(|t| serde_json::from_str::<Spec>(&t).ok()) else {
        eprintln!("bad spec");
        return 2;
    };
    let outfile = PathBuf::from(&args[1]);
    let sch = spec.schedule.clone();
    // worker-side perturbation
    if sch.perturb_ppm > 0 {
        let seed = sch.perturb_seed;
        let ppm = sch.perturb_ppm as u64;
        let maxp = sch.max_pause_us.max(1) as u64;
        let counter = Arc::new(AtomicU64::new(0));
        vh::install_point(Some(Arc::new(move |site, worker| {
            let n = counter.fetch_add(1, Ordering::Relaxed);
            let h = mix(seed ^ ((site as u64) << 40) ^ ((worker as u64) << 48), n);
            if h % 1_000_000 < ppm {
                let us = (h >> 20) % maxp;
                if us < 3 {
                    std::thread::yield_now();
                } else {
                    std::thread::sleep(Duration::from_micros(us));
                }
            }
        })));
    }
    vh::start_log();
    let mut params = spec.params.clone();
    params.threads = sch.threads;
    params.queue_capacity = sch.queue_capacity;
    let opts = InprocOpts { push_delays_us: sch.push_delays_us.clone(), extra_sync_every: sch.extra_sync_every as usize };
    let inputs = spec.inputs.clone();
    let out = spec.out.clone();
    let start = Instant::now();
    let (tx, rx) = std::sync::mpsc::channel();
    let p2 = params.clone();
    std::thread::spawn(move || {
        let r = guarded(|| create_inproc(&p2, &inputs, &out, &opts));
        let _ = tx.send(r);
    });
    let threads = params.threads as usize;
    let deadline = Duration::from_secs(spec.watchdog_s);
    let mut outcome = Outcome::default();
    let mut last_len = 0usize;
    let mut last_change = Instant::now();
    let mut os_proof: Option<String> = None;
    let mut os_tried = 0u32;
    let mut last_snap: Vec<(u64, char, u64, u64)> = Vec::new();
    let mut last_os_change = Instant::now();
    let mut last_os_sample = Instant::now();
    let result = loop {
        match rx.recv_timeout(Duration::from_millis(200)) {
            Ok(r) => break Some(r),
            Err(std::sync::mpsc::RecvTimeoutError::Timeout) => {
                // past the deadline: give up only when the log has stopped growing (a run that still
                // logs events is slow - e.g. on a loaded machine - not stuck), or at 6 x the deadline
                // (phases without hook points - the final compression, finalize - log nothing: the
                // threads' scheduling counters are the second progress signal)
                if start.elapsed() > deadline {
                    if last_os_sample.elapsed() > Duration::from_secs(2) {
                        last_os_sample = Instant::now();
                        // progress = some thread used CPU or is not asleep (a sleep-polling thread switches but does no work)
                        let snap: Vec<(u64, char, u64, u64)> = thread_snapshot().into_iter().map(|t| (t.0, t.1, 0, t.3)).collect();
                        if snap != last_snap {
                            last_snap = snap;
                            last_os_change = Instant::now();
                        }
                    }
                    let quiet = last_change.elapsed().min(last_os_change.elapsed());
                    if quiet > Duration::from_secs(30) || start.elapsed() > 6 * deadline {
                        break None;
                    }
                }
                // no event for 4 s: if the log already proves a stuck state there is no point in waiting
                let n = vh::log_len();
                if n != last_len {
                    last_len = n;
                    last_change = Instant::now();
                } else if last_change.elapsed() > Duration::from_secs(4) && stuck_proof(&vh::snapshot_log(), params.threads as usize).is_some() {
                    break None;
                } else if last_change.elapsed() > Duration::from_secs(8 + 10 * os_tried as u64) && os_tried < 6 {
                    // the log proves nothing (e.g. a thread blocked on a lock the hooks do not see): ask the OS
                    os_tried += 1;
                    os_proof = os_stuck_proof();
                    if os_proof.is_some() {
                        break None;
                    }
                }
            }
            Err(_) => break Some(Err("the create thread vanished".to_string())),
        }
    };
    let log = match &result {
        Some(_) => vh::take_log(),
        None => {
            // watchdog: is the log still growing?
            let l1 = vh::take_log();
            // (take_log switches logging off; that is fine, we are about to exit)
            l1
        }
    };
    EVENTS_SEEN.store(log.len() as u64, Ordering::Relaxed);
    outcome.events = log.len() as u64;
    outcome.wall_ms = start.elapsed().as_millis() as u64;
    let finished = matches!(&result, Some(Ok(Ok(()))));
    let (rounds, contigs, pw, behind, problems) = analyse(&log, threads, finished);
    outcome.rounds = rounds;
    outcome.contigs_pulled = contigs;
    outcome.producer_waits = pw;
    outcome.tokens_behind_contigs = behind;
    outcome.log_problems = problems;
    outcome.status = match result {
        Some(Ok(Ok(()))) => "ok".to_string(),
        Some(Ok(Err(e))) => format!("err: {}", e.lines().next().unwrap_or("")),
        Some(Err(p)) => format!("panic: {}", p),
        None => match stuck_proof(&log, threads) {
            Some(why) => format!("stuck: {}", why),
            None => match os_proof.or_else(os_stuck_proof) {
                Some(why) => format!("stuck: {} (last logged event per thread: {})", why, last_events(&log)),
                None => "slow".to_string(),
            },
        },
    };
    if finished {
        if let Ok(b) = std::fs::read(&spec.out) {
            outcome.sha256 = Some(sha256_hex(&b));
            outcome.size = b.len() as u64;
        }
    }
    let _ = std::fs::write(&outfile, serde_json::to_string(&outcome).unwrap());
    // worker threads of a stuck pipeline never return: leave without joining them
    std::process::exit(0);
}

/// parent side: run one spec in a child of this binary
pub fn run_spec(spec: &Spec, dir: &std::path::Path, tag: &str) -> Result<Outcome, String> {
    let sf = dir.join(format!("spec-{}.json", tag));
    let of = dir.join(format!("outcome-{}.json", tag));
    std::fs::write(&sf, serde_json::to_string(spec).unwrap()).map_err(|e| e.to_string())?;
    let _ = std::fs::remove_file(&of);
    let mut cmd = std::process::Command::new(std::env::current_exe().map_err(|e| e.to_string())?);
    cmd.args(["child", "pipeline"]).arg(&sf).arg(&of);
    let o = crate::pipeline::run_cmd(cmd, Duration::from_secs(6 * spec.watchdog_s + 120)).map_err(|e| e.to_string())?;
    match std::fs::read_to_string(&of).ok().and_then(|t| serde_json::from_str::<Outcome>(&t).ok()) {
        Some(out) => Ok(out),
        None => Err(format!("pipeline child left no outcome: {}", o.describe())),
    }
}
