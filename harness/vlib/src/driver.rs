//! Parent side: fan a property out to shard processes, merge their results,
//! write the evidence file, print VIOLATION / KNOWN-FINDING lines.

use crate::engine::*;
use crate::known::KnownFindings;
use crate::props;
use serde_json::{json, Value};
use std::collections::{BTreeMap, HashSet};
use std::path::{Path, PathBuf};
use std::process::{Command, Stdio};
use std::time::{Duration, Instant};

pub struct Paths {
    pub verif: PathBuf,
    pub repo: PathBuf,
    pub ragc: PathBuf,
    pub ragc_checked: PathBuf,
    pub vcheck_checked: PathBuf,
    pub vshuttle: PathBuf,
}

pub fn paths_from_env() -> Paths {
    let verif = PathBuf::from(std::env::var("VERIF_DIR").unwrap_or_else(|_| "/verif".into()));
    let repo = PathBuf::from(std::env::var("VERIF_REPO").unwrap_or_else(|_| "/repo".into()));
    let build = verif.join(".build");
    Paths {
        ragc: PathBuf::from(std::env::var("VERIF_RAGC").unwrap_or_else(|_| build.join("cli-release/release/ragc").to_string_lossy().to_string())),
        ragc_checked: PathBuf::from(
            std::env::var("VERIF_RAGC_CHECKED").unwrap_or_else(|_| build.join("cli-checked/release/ragc").to_string_lossy().to_string()),
        ),
        vcheck_checked: PathBuf::from(
            std::env::var("VERIF_VCHECK_CHECKED").unwrap_or_else(|_| build.join("harness/checked/vcheck").to_string_lossy().to_string()),
        ),
        vshuttle: build.join("vshuttle/release/vshuttle"),
        verif,
        repo,
    }
}

pub fn make_ctx(p: &Paths, prop: &str, tier: Tier, seed: u64, shard: usize, nshards: usize) -> Ctx {
    let shrink_iters = props::find(prop).map(|i| i.shrink_iters).unwrap_or(200);
    let scratch = crate::util::scratch_base().join(format!("{}-{}", prop, std::process::id()));
    let _ = std::fs::create_dir_all(&scratch);
    Ctx {
        prop: prop.to_string(),
        tier,
        seed,
        shard,
        nshards,
        verif_dir: p.verif.clone(),
        repo: p.repo.clone(),
        ragc: p.ragc.clone(),
        ragc_checked: p.ragc_checked.clone(),
        vcheck_checked: p.vcheck_checked.clone(),
        vshuttle: p.vshuttle.clone(),
        scratch,
        known: KnownFindings::load(&p.verif),
        replaying: false,
        shrink_iters,
    }
}

/// child entry: run one shard, write its Stats as JSON
pub fn shard_main(prop: &str, tier: Tier, seed: u64, shard: usize, nshards: usize, out: &Path) -> i32 {
    let Some(info) = props::find(prop) else {
        eprintln!("unknown property {}", prop);
        return 2;
    };
    install_panic_hook();
    // do not outlive the parent (a killed run must not leave shards behind)
    unsafe {
        libc::prctl(libc::PR_SET_PDEATHSIG, libc::SIGKILL);
    }
    let p = paths_from_env();
    let ctx = make_ctx(&p, prop, tier, seed, shard, nshards);
    let mut stats = Stats::default();
    // regression tier: committed replay files first (shard 0 only)
    if shard == 0 {
        run_regressions(&ctx, info, &mut stats);
    }
    (info.run)(&ctx, &mut stats);
    let _ = std::fs::remove_dir_all(&ctx.scratch);
    // hashes go to a sidecar to keep the JSON small
    let hashes: Vec<u8> = stats.nontrivial_hashes.iter().flat_map(|h| h.to_le_bytes()).collect();
    let _ = std::fs::write(out.with_extension("hashes"), hashes);
    stats.nontrivial_hashes.clear();
    std::fs::write(out, serde_json::to_vec(&stats).unwrap()).expect("write shard result");
    0
}

fn run_regressions(ctx: &Ctx, info: &PropInfo, stats: &mut Stats) {
    let dir = ctx.verif_dir.join("replays");
    let Ok(rd) = std::fs::read_dir(&dir) else { return };
    let mut files: Vec<PathBuf> = rd
        .filter_map(|e| e.ok())
        .map(|e| e.path())
        .filter(|p| p.is_file() && p.file_name().and_then(|n| n.to_str()).map(|n| n.starts_with(&format!("{}-", info.id)) && n.ends_with(".json")).unwrap_or(false))
        .collect();
    files.sort();
    for f in files {
        let Ok(s) = std::fs::read_to_string(&f) else { continue };
        let Ok(v) = serde_json::from_str::<Value>(&s) else { continue };
        let stage = v["stage"].as_str().unwrap_or("").to_string();
        let rep = match guarded(|| (info.replay)(ctx, &stage, &v["case"])) {
            Ok(r) => r,
            Err(p) => Report::fail(format!("panic: {}", p)),
        };
        stats.evaluations += 1;
        stats.stages.entry("regression".into()).or_default().evaluations += 1;
        match rep.verdict {
            Verdict::Fail(m) => stats.failures.push(Failure {
                stage: stage.clone(),
                message: format!("regression {}: {}", f.display(), m),
                case: v["case"].clone(),
                replay_path: f.to_string_lossy().to_string(),
            }),
            Verdict::Known { id, what } => {
                stats.known.entry(id).or_insert((0, what)).0 += 1;
            }
            _ => {}
        }
    }
}

pub fn replay_main(prop: &str, file: &Path) -> i32 {
    let Some(info) = props::find(prop) else {
        eprintln!("unknown property {}", prop);
        return 2;
    };
    install_panic_hook();
    let p = paths_from_env();
    let mut ctx = make_ctx(&p, prop, Tier::Quick, 0, 0, 1);
    ctx.replaying = true;
    let s = match std::fs::read_to_string(file) {
        Ok(s) => s,
        Err(e) => {
            eprintln!("cannot read {}: {}", file.display(), e);
            return 2;
        }
    };
    let v: Value = match serde_json::from_str(&s) {
        Ok(v) => v,
        Err(e) => {
            eprintln!("replay file does not parse: {}", e);
            return 2;
        }
    };
    let stage = v["stage"].as_str().unwrap_or("").to_string();
    let rep = match guarded(|| (info.replay)(&ctx, &stage, &v["case"])) {
        Ok(r) => r,
        Err(p) => Report::fail(format!("panic: {}", p)),
    };
    let _ = std::fs::remove_dir_all(&ctx.scratch);
    match rep.verdict {
        Verdict::Pass | Verdict::Excluded => {
            println!("replay {}: property held (labels {:?})", file.display(), rep.labels);
            0
        }
        Verdict::Inconclusive(m) => {
            println!("INCONCLUSIVE: {}", m);
            2
        }
        Verdict::Known { id, what } => {
            println!("KNOWN-FINDING: property={} {} [{}]", prop, what, id);
            0
        }
        Verdict::Fail(m) => {
            println!("replay {}: {}", file.display(), m);
            println!("VIOLATION property={} replay={}", prop, file.display());
            1
        }
    }
}

/// parent entry
pub fn run_main(prop: &str, tier: Tier, seed: u64) -> i32 {
    let Some(info) = props::find(prop) else {
        eprintln!("unknown property {}", prop);
        return 2;
    };
    let p = paths_from_env();
    let start = Instant::now();
    let ncpu = std::thread::available_parallelism().map(|n| n.get()).unwrap_or(4);
    let nshards = std::env::var("VERIF_SHARDS").ok().and_then(|s| s.parse().ok()).unwrap_or(ncpu).min(info.max_shards).max(1);
    let run_dir = p.verif.join(".build").join("runs").join(format!("{}-{}-{}", prop, tier.name(), std::process::id()));
    let _ = std::fs::remove_dir_all(&run_dir);
    std::fs::create_dir_all(&run_dir).expect("create run dir");
    let exe = std::env::current_exe().expect("current exe");
    // see ./check: allocator tuning inherited by every shard and every ragc child
    for (k, v) in [("MALLOC_MMAP_THRESHOLD_", "1073741824"), ("MALLOC_TRIM_THRESHOLD_", "4294967295"), ("MALLOC_TOP_PAD_", "67108864")] {
        if std::env::var(k).is_err() {
            std::env::set_var(k, v);
        }
    }
    let mut children = Vec::new();
    for i in 0..nshards {
        let out = run_dir.join(format!("shard{}.json", i));
        // ragc prints unconditional DEBUG lines on stderr; keep them only on request
        let log = if std::env::var("VERIF_KEEP_LOGS").is_ok() {
            std::fs::File::create(run_dir.join(format!("shard{}.log", i))).expect("log")
        } else {
            std::fs::OpenOptions::new().write(true).open("/dev/null").expect("/dev/null")
        };
        let child = Command::new(&exe)
            .args(["shard", prop, "--tier", tier.name(), "--seed", &seed.to_string(), "--shard", &i.to_string(), "--of", &nshards.to_string(), "--out"])
            .arg(&out)
            .stdin(Stdio::null())
            .stdout(Stdio::null())
            .stderr(Stdio::from(log))
            .spawn()
            .expect("spawn shard");
        children.push((i, child, out));
    }
    let budget = Duration::from_secs(
        std::env::var("VERIF_WATCHDOG_S").ok().and_then(|s| s.parse().ok()).unwrap_or(tier.pick(info.watchdog_s.0, info.watchdog_s.1)),
    );
    let mut merged = Stats::default();
    let mut hashes: HashSet<u64> = HashSet::new();
    let mut inconclusive: Vec<String> = Vec::new();
    let mut pending: Vec<(usize, std::process::Child, PathBuf)> = children;
    while !pending.is_empty() {
        let mut still = Vec::new();
        for (i, mut ch, out) in pending {
            match ch.try_wait() {
                Ok(Some(status)) => {
                    if !status.success() || !out.exists() {
                        let tail = tail_of(&run_dir.join(format!("shard{}.log", i)));
                        inconclusive.push(format!("shard {} ended with {} without a result; log tail: {}", i, status, tail));
                    } else {
                        match std::fs::read(&out).ok().and_then(|b| serde_json::from_slice::<Stats>(&b).ok()) {
                            Some(s) => {
                                if let Ok(hb) = std::fs::read(out.with_extension("hashes")) {
                                    for c in hb.chunks_exact(8) {
                                        hashes.insert(u64::from_le_bytes(c.try_into().unwrap()));
                                    }
                                }
                                merge(&mut merged, s);
                            }
                            None => inconclusive.push(format!("shard {} wrote an unreadable result", i)),
                        }
                    }
                }
                Ok(None) => {
                    if start.elapsed() > budget {
                        let _ = ch.kill();
                        let _ = ch.wait();
                        inconclusive.push(format!("shard {} exceeded the {} s watchdog and was stopped", i, budget.as_secs()));
                    } else {
                        still.push((i, ch, out));
                    }
                }
                Err(e) => inconclusive.push(format!("shard {}: wait failed: {}", i, e)),
            }
        }
        pending = still;
        if !pending.is_empty() {
            std::thread::sleep(Duration::from_millis(50));
        }
    }
    inconclusive.extend(merged.inconclusive.iter().cloned());
    let wall = start.elapsed().as_secs_f64();

    // evidence
    let exhaustive_stages: Vec<&String> = merged.stages.iter().filter(|(_, s)| s.exhaustive).map(|(k, _)| k).collect();
    let all_exhaustive = !merged.stages.is_empty() && merged.stages.iter().all(|(k, s)| s.exhaustive || k == "regression");
    let mut samples = merged.samples.clone();
    samples.truncate(8);
    if samples.is_empty() {
        samples.push(json!({"note": "no non-trivial case was produced by this run"}));
    }
    let mut coverage = json!({
        "evaluations": merged.evaluations,
        "distinct_nontrivial": hashes.len(),
        "rule": info.rule,
        "samples": samples,
        "classes": merged.labels,
        "stages": merged.stages,
        "exhaustive_stages": exhaustive_stages,
        "exhaustive": all_exhaustive,
        "excluded_by_known_finding": merged.excluded,
        "known_findings_reconfirmed": merged.known.iter().map(|(k, v)| (k.clone(), v.0)).collect::<BTreeMap<_, _>>(),
        "shards": nshards,
        "inconclusive": inconclusive,
    });
    for (k, v) in &merged.extra {
        coverage[k] = v.clone();
    }
    let evidence = json!({
        "property_id": prop,
        "tier": tier.name(),
        "seed": seed,
        "level": info.level,
        "coverage": coverage,
        "assumptions": info.assumptions,
        "wall_s": (wall * 100.0).round() / 100.0,
        "violations": merged.failures.len(),
    });
    let evdir = p.verif.join("evidence");
    let _ = std::fs::create_dir_all(&evdir);
    std::fs::write(evdir.join(format!("{}.json", prop)), serde_json::to_string_pretty(&evidence).unwrap() + "\n").expect("write evidence");
    if std::env::var("VERIF_KEEP_LOGS").is_err() {
        let _ = std::fs::remove_dir_all(&run_dir);
    }

    println!(
        "{} {} seed={} shards={}: {} evaluations, {} distinct non-trivial, {:.1}s",
        prop,
        tier.name(),
        seed,
        nshards,
        merged.evaluations,
        hashes.len(),
        wall
    );
    for (k, v) in &merged.labels {
        println!("  class {:<28} {}", k, v);
    }
    for (id, (n, what)) in &merged.known {
        println!("KNOWN-FINDING: property={} {} [{}; reconfirmed on {} case(s)]", prop, what, id, n);
    }
    if !merged.failures.is_empty() {
        // one line per distinct (stage, message); shards often rediscover the same failure
        let mut seen: HashSet<(String, String)> = HashSet::new();
        let mut printed = 0;
        for f in &merged.failures {
            if !seen.insert((f.stage.clone(), f.message.clone())) {
                continue;
            }
            printed += 1;
            if printed > 6 {
                continue;
            }
            println!("  failure in stage {}: {}", f.stage, f.message);
            println!("VIOLATION property={} replay={}", prop, f.replay_path);
        }
        if printed > 6 {
            println!("  ({} further distinct failures not shown; all replay files are under replays/found/)", printed - 6);
        }
        return 1;
    }
    if !inconclusive.is_empty() {
        for m in &inconclusive {
            println!("INCONCLUSIVE: {}", m);
        }
        return 2;
    }
    0
}

fn tail_of(p: &Path) -> String {
    let s = std::fs::read_to_string(p).unwrap_or_default();
    let lines: Vec<&str> = s.lines().collect();
    let n = lines.len();
    lines[n.saturating_sub(6)..].join(" | ")
}

fn merge(a: &mut Stats, b: Stats) {
    a.evaluations += b.evaluations;
    for (k, v) in b.labels {
        *a.labels.entry(k).or_insert(0) += v;
    }
    a.samples.extend(b.samples);
    for (k, v) in b.known {
        let e = a.known.entry(k).or_insert((0, v.1.clone()));
        e.0 += v.0;
    }
    a.excluded += b.excluded;
    for (k, v) in b.stages {
        let e = a.stages.entry(k).or_insert_with(|| StageStat { exhaustive: v.exhaustive, ..Default::default() });
        e.evaluations += v.evaluations;
        e.nontrivial += v.nontrivial;
        e.exhaustive = e.exhaustive && v.exhaustive;
    }
    a.failures.extend(b.failures);
    for (k, v) in b.extra {
        match (a.extra.get(&k).and_then(|x| x.as_u64()), v.as_u64()) {
            (Some(x), Some(y)) => {
                a.extra.insert(k, json!(x + y));
            }
            (None, _) if !a.extra.contains_key(&k) => {
                a.extra.insert(k, v);
            }
            _ => {
                // arrays (per-shard campaign records) are concatenated
                if let (Some(Value::Array(x)), Value::Array(y)) = (a.extra.get_mut(&k), &v) {
                    x.extend(y.iter().cloned());
                }
            }
        }
    }
    a.inconclusive.extend(b.inconclusive);
}
