//! Small shared helpers: deterministic PRNG for expanding generated seeds,
//! stable hashing, JSON abbreviation, scratch directories.

use serde_json::Value;
use std::hash::{Hash, Hasher};
use std::path::{Path, PathBuf};

/// splitmix64 — used to derive per-shard seeds and to expand a *generated*
/// u64 into bulk data (bases). Never seeded from a clock.
#[derive(Clone, Debug)]
pub struct SplitMix(pub u64);

impl SplitMix {
    pub fn new(seed: u64) -> Self {
        SplitMix(seed)
    }
    pub fn next(&mut self) -> u64 {
        self.0 = self.0.wrapping_add(0x9E37_79B9_7F4A_7C15);
        let mut z = self.0;
        z = (z ^ (z >> 30)).wrapping_mul(0xBF58_476D_1CE4_E5B9);
        z = (z ^ (z >> 27)).wrapping_mul(0x94D0_49BB_1331_11EB);
        z ^ (z >> 31)
    }
    /// uniform in 0..n (n > 0)
    pub fn below(&mut self, n: u64) -> u64 {
        ((self.next() as u128 * n as u128) >> 64) as u64
    }
    pub fn chance(&mut self, per_million: u64) -> bool {
        self.below(1_000_000) < per_million
    }
}

pub fn mix(a: u64, b: u64) -> u64 {
    let mut s = SplitMix(a ^ b.rotate_left(32) ^ 0xD6E8_FEB8_6659_FD93);
    s.next() ^ s.next().rotate_left(17)
}

pub fn str_seed(s: &str) -> u64 {
    let mut h: u64 = 0xcbf2_9ce4_8422_2325;
    for b in s.bytes() {
        h ^= b as u64;
        h = h.wrapping_mul(0x1000_0000_01b3);
    }
    h
}

/// Stable 64-bit hash of a case (std SipHash with the fixed default keys).
pub fn stable_hash<T: Hash>(t: &T) -> u64 {
    #[allow(deprecated)]
    let mut h = std::hash::SipHasher::new();
    t.hash(&mut h);
    h.finish()
}

/// Monotone index mapping (shrinks towards 0 together with `i`).
pub fn scale(i: u16, len: usize) -> usize {
    if len == 0 {
        0
    } else {
        ((i as usize) * len) >> 16
    }
}

/// Shorten long strings / arrays so that evidence samples stay readable.
pub fn abbreviate(v: &Value) -> Value {
    match v {
        Value::String(s) if s.len() > 96 => {
            let head: String = s.chars().take(80).collect();
            Value::String(format!("{}…(+{} chars)", head, s.chars().count() - 80))
        }
        Value::Array(a) => {
            let mut out: Vec<Value> = a.iter().take(12).map(abbreviate).collect();
            if a.len() > 12 {
                out.push(Value::String(format!("…(+{} more)", a.len() - 12)));
            }
            Value::Array(out)
        }
        Value::Object(m) => Value::Object(m.iter().map(|(k, v)| (k.clone(), abbreviate(v))).collect()),
        other => other.clone(),
    }
}

pub fn sha256_hex(data: &[u8]) -> String {
    use sha2::{Digest, Sha256};
    let mut h = Sha256::new();
    h.update(data);
    let d = h.finalize();
    d.iter().map(|b| format!("{:02x}", b)).collect()
}

/// A scratch directory removed on drop.
pub struct Scratch {
    pub path: PathBuf,
}

impl Scratch {
    pub fn new(base: &Path, tag: &str) -> Scratch {
        use std::sync::atomic::{AtomicU64, Ordering};
        static N: AtomicU64 = AtomicU64::new(0);
        let n = N.fetch_add(1, Ordering::SeqCst);
        let path = base.join(format!("{}-{}-{}", tag, std::process::id(), n));
        let _ = std::fs::remove_dir_all(&path);
        std::fs::create_dir_all(&path).expect("create scratch dir");
        Scratch { path }
    }
    pub fn file(&self, name: &str) -> PathBuf {
        self.path.join(name)
    }
}

impl Drop for Scratch {
    fn drop(&mut self) {
        let _ = std::fs::remove_dir_all(&self.path);
    }
}

pub fn scratch_base() -> PathBuf {
    if let Ok(p) = std::env::var("VERIF_TMP") {
        return PathBuf::from(p);
    }
    let shm = Path::new("/dev/shm");
    let base = if shm.is_dir() { shm.to_path_buf() } else { std::env::temp_dir() };
    base.join("verif-scratch")
}

pub const CODE_LETTERS: &[u8; 16] = b"ACGTNRYSWKMBDHVU";

pub fn codes_to_letters(codes: &[u8]) -> String {
    codes
        .iter()
        .map(|&c| if (c as usize) < 16 { CODE_LETTERS[c as usize] as char } else { 'N' })
        .collect()
}

pub fn letter_to_code(c: u8) -> u8 {
    let u = c.to_ascii_uppercase();
    match CODE_LETTERS.iter().position(|&x| x == u) {
        Some(i) => i as u8,
        None => 30,
    }
}

pub fn letters_to_codes(s: &str) -> Vec<u8> {
    s.bytes().map(letter_to_code).collect()
}

pub fn revcomp_letters(s: &str) -> String {
    s.bytes()
        .rev()
        .map(|c| match c {
            b'A' => 'T',
            b'C' => 'G',
            b'G' => 'C',
            b'T' => 'A',
            x => x as char,
        })
        .collect()
}
