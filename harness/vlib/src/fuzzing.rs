//! Coverage-guided leg (libFuzzer through cargo-fuzz): byte strings are decoded
//! into the *same* structured case types the proptest driver generates and are
//! judged by the *same* oracle functions (`props::cNN::check*`), so the semantic
//! oracle lives inside the target. Two sides:
//!
//! * in the instrumented target binary: `fuzz_one(target, data)` decodes, checks,
//!   counts (evaluations, distinct non-trivial cases, class labels) and aborts on
//!   a failed oracle so that libFuzzer saves the input; the counters are written
//!   to `$VERIF_FUZZ_STATS` at normal exit;
//! * in a vcheck shard: `run_stage` starts the target binary on a fresh corpus
//!   directory (seeded from generated inputs on odd shards, empty on even ones)
//!   with fixed `-runs` / `-seed`, merges the counters into the shard's Stats and,
//!   if the target stopped on an input, decodes that input again, re-judges it in
//!   the uninstrumented release build and records it as a failure whose replay
//!   file is the structured case (so `./check <id> --replay` needs no fuzzer).

use crate::engine::*;
use crate::props::{c03, c09, c10, c12, c13, c16, c20};
use serde::{Deserialize, Serialize};
use serde_json::{json, Value};
use std::collections::{BTreeMap, HashSet};
use std::path::{Path, PathBuf};
use std::process::{Command, Stdio};
use std::sync::{Mutex, OnceLock};

/// Byte cursor; exhausted input reads as zeros so every byte string decodes.
pub struct Cur<'a> {
    d: &'a [u8],
    p: usize,
}

impl<'a> Cur<'a> {
    pub fn new(d: &'a [u8]) -> Self {
        Cur { d, p: 0 }
    }
    pub fn is_empty(&self) -> bool {
        self.p >= self.d.len()
    }
    pub fn remaining(&self) -> usize {
        self.d.len().saturating_sub(self.p)
    }
    pub fn u8(&mut self) -> u8 {
        let v = self.d.get(self.p).copied().unwrap_or(0);
        self.p += 1;
        v
    }
    pub fn u16(&mut self) -> u16 {
        (self.u8() as u16) | ((self.u8() as u16) << 8)
    }
    pub fn u32(&mut self) -> u32 {
        (self.u16() as u32) | ((self.u16() as u32) << 16)
    }
    pub fn u64(&mut self) -> u64 {
        (self.u32() as u64) | ((self.u32() as u64) << 32)
    }
    /// up to n bytes (fewer at the end of the input)
    pub fn take(&mut self, n: usize) -> &'a [u8] {
        let s = self.p.min(self.d.len());
        let e = (s + n).min(self.d.len());
        self.p = e.max(self.p);
        &self.d[s..e]
    }
    pub fn rest(&mut self) -> &'a [u8] {
        let s = self.p.min(self.d.len());
        self.p = self.d.len();
        &self.d[s..]
    }
}

/// nucleotide code from a fuzz byte: mostly ACGT, some N, some IUPAC (5..15)
pub fn sym(b: u8) -> u8 {
    match b {
        0..=207 => b & 3,
        208..=231 => 4,
        _ => 5 + (b - 232) % 11,
    }
}

pub struct Target {
    pub name: &'static str,
    pub prop: &'static str,
    pub stage: &'static str,
    pub max_len: usize,
}

pub const TARGETS: &[Target] = &[
    Target { name: "lz", prop: "C09", stage: "fuzz-lz", max_len: 4096 },
    Target { name: "seg", prop: "C10", stage: "fuzz-seg", max_len: 2048 },
    Target { name: "pack", prop: "C12", stage: "fuzz-pack", max_len: 4096 },
    Target { name: "arc", prop: "C13", stage: "fuzz-arc", max_len: 4096 },
    Target { name: "kmer", prop: "C20", stage: "fuzz-kmer", max_len: 512 },
    Target { name: "codec", prop: "C03", stage: "fuzz-codec", max_len: 4096 },
    Target { name: "fasta", prop: "C16", stage: "fuzz-fasta", max_len: 2048 },
];

pub fn target(name: &str) -> Option<&'static Target> {
    TARGETS.iter().find(|t| t.name == name)
}

/// decode + judge; returns (report, case as JSON, hash of the case)
pub fn eval(ctx: &Ctx, name: &str, data: &[u8]) -> (Report, Value, u64) {
    fn pack<C: Serialize + std::hash::Hash>(rep: Report, c: &C) -> (Report, Value, u64) {
        (rep, serde_json::to_value(c).unwrap_or(Value::Null), crate::util::stable_hash(c))
    }
    match name {
        "lz" => {
            let c = c09::from_fuzz(data);
            let r = guarded(|| c09::check_with(false, &c)).unwrap_or_else(|p| Report::fail(format!("panic: {}", p)));
            pack(r, &c)
        }
        "seg" => {
            let c = c10::from_fuzz(data);
            let r = guarded(|| c10::check(&c)).unwrap_or_else(|p| Report::fail(format!("panic: {}", p)));
            pack(r, &c)
        }
        "pack" => {
            let c = c12::from_fuzz(data);
            let r = guarded(|| c12::check(&c)).unwrap_or_else(|p| Report::fail(format!("panic: {}", p)));
            pack(r, &c)
        }
        "arc" => {
            let c = c13::from_fuzz(data);
            let r = guarded(|| c13::check_in(ctx, &c)).unwrap_or_else(|p| Report::fail(format!("panic: {}", p)));
            pack(r, &c)
        }
        "kmer" => {
            let c = c20::from_fuzz(data);
            let r = guarded(|| c20::check(&c)).unwrap_or_else(|p| Report::fail(format!("panic: {}", p)));
            pack(r, &c)
        }
        "codec" => {
            let c = c03::from_fuzz(data);
            let r = guarded(|| c03::check_codec(&c)).unwrap_or_else(|p| Report::fail(format!("panic: {}", p)));
            pack(r, &c)
        }
        "fasta" => {
            let c = c16::from_fuzz(data);
            let r = guarded(|| c16::check_parser(&c)).unwrap_or_else(|p| Report::fail(format!("panic: {}", p)));
            pack(r, &c)
        }
        _ => (Report::inconclusive(format!("unknown fuzz target {}", name)), Value::Null, 0),
    }
}

pub fn seeds(name: &str) -> Vec<Vec<u8>> {
    match name {
        "lz" => c09::fuzz_seeds(),
        "seg" => c10::fuzz_seeds(),
        "pack" => c12::fuzz_seeds(),
        "arc" => c13::fuzz_seeds(),
        "kmer" => c20::fuzz_seeds(),
        "codec" => c03::fuzz_seeds(),
        "fasta" => c16::fuzz_seeds(),
        _ => Vec::new(),
    }
}

// ---------------------------------------------------------------- in the target binary

#[derive(Default, Serialize, Deserialize)]
pub struct FuzzCounters {
    pub evaluations: u64,
    pub nontrivial: u64,
    pub labels: BTreeMap<String, u64>,
    pub hashes: Vec<u64>,
    pub samples: Vec<Value>,
}

struct InTarget {
    ctx: Ctx,
    counters: FuzzCounters,
    seen: HashSet<u64>,
    out: Option<PathBuf>,
}

static IN_TARGET: OnceLock<Mutex<InTarget>> = OnceLock::new();

extern "C" fn dump_at_exit() {
    if let Some(m) = IN_TARGET.get() {
        if let Ok(mut g) = m.lock() {
            let hashes: Vec<u64> = g.seen.iter().copied().collect();
            g.counters.hashes = hashes;
            if let Some(p) = g.out.clone() {
                let _ = std::fs::write(&p, serde_json::to_vec(&g.counters).unwrap_or_default());
            }
            let _ = std::fs::remove_dir_all(&g.ctx.scratch);
        }
    }
}

/// Entry point of every libFuzzer target. State of the code under test is not
/// shared between iterations (every oracle builds its objects afresh).
pub fn fuzz_one(name: &'static str, data: &[u8]) {
    let cell = IN_TARGET.get_or_init(|| {
        // libfuzzer-sys installs a hook that aborts on *any* panic; the oracles catch
        // panics of the code under test themselves and turn them into verdicts
        install_panic_hook();
        let p = crate::driver::paths_from_env();
        let ctx = crate::driver::make_ctx(&p, target(name).map(|t| t.prop).unwrap_or("C00"), Tier::Thorough, 0, 0, 1);
        unsafe {
            libc::atexit(dump_at_exit);
        }
        Mutex::new(InTarget { ctx, counters: FuzzCounters::default(), seen: HashSet::new(), out: std::env::var("VERIF_FUZZ_STATS").ok().map(PathBuf::from) })
    });
    let ctx = cell.lock().unwrap().ctx.clone();
    let (rep, case, hash) = eval(&ctx, name, data);
    let mut g = cell.lock().unwrap();
    g.counters.evaluations += 1;
    for l in &rep.labels {
        *g.counters.labels.entry((*l).to_string()).or_insert(0) += 1;
    }
    if rep.nontrivial && !rep.is_fail() {
        g.counters.nontrivial += 1;
        if g.seen.len() < 4_000_000 {
            g.seen.insert(hash);
        }
        if g.counters.samples.len() < 2 && g.counters.nontrivial % 97 == 1 {
            g.counters.samples.push(json!({"stage": target(name).map(|t| t.stage).unwrap_or(""), "labels": rep.labels, "case": crate::util::abbreviate(&case)}));
        }
    }
    if let Verdict::Fail(m) = &rep.verdict {
        eprintln!("ORACLE-FAILURE target={} {}", name, m);
        drop(g);
        std::process::abort();
    }
}

// ---------------------------------------------------------------- in a vcheck shard

fn fuzz_bin(ctx: &Ctx, name: &str) -> PathBuf {
    if let Ok(d) = std::env::var("VERIF_FUZZ_BIN_DIR") {
        return PathBuf::from(d).join(format!("fz_{}", name));
    }
    ctx.verif_dir.join(".build/fuzz/x86_64-unknown-linux-gnu/release").join(format!("fz_{}", name))
}

fn parse_final(stderr: &str) -> (u64, u64, u64) {
    // "stat::number_of_executed_units: N"; "#N DONE cov: C ft: F ..."
    let mut execs = 0;
    let mut cov = 0;
    let mut ft = 0;
    for line in stderr.lines() {
        if let Some(r) = line.strip_prefix("stat::number_of_executed_units:") {
            execs = r.trim().parse().unwrap_or(0);
        }
        if line.contains(" cov: ") {
            let toks: Vec<&str> = line.split_whitespace().collect();
            for w in toks.windows(2) {
                if w[0] == "cov:" {
                    cov = w[1].parse().unwrap_or(cov);
                }
                if w[0] == "ft:" {
                    ft = w[1].parse().unwrap_or(ft);
                }
            }
        }
    }
    (execs, cov, ft)
}

/// One libFuzzer campaign of `total_runs / nshards` executions in this shard.
pub fn run_stage(ctx: &Ctx, stats: &mut Stats, name: &str, total_runs: u64) {
    let Some(t) = target(name) else { return };
    if stats.failures.iter().any(|f| f.stage == t.stage) {
        return;
    }
    let bin = fuzz_bin(ctx, name);
    if !bin.exists() {
        stats.inconclusive.push(format!("stage {}: fuzz target binary {} is missing (cargo +nightly fuzz build failed?)", t.stage, bin.display()));
        return;
    }
    let runs = ctx.share(total_runs);
    if runs == 0 {
        return;
    }
    let dir = ctx.scratch(&format!("fuzz-{}", name));
    let corpus = dir.path.join("corpus");
    let arts = dir.path.join("artifacts");
    let _ = std::fs::create_dir_all(&corpus);
    let _ = std::fs::create_dir_all(&arts);
    let seeded = ctx.shard % 2 == 1;
    if seeded {
        for (i, s) in seeds(name).iter().enumerate() {
            let _ = std::fs::write(corpus.join(format!("seed{:03}", i)), s);
        }
    }
    let stats_file = dir.path.join("counters.json");
    let seed = ((ctx.stage_seed(t.stage) % 0xffff_fffe) + 1) as u32; // 0 would mean "random"
    let errlog = dir.path.join("stderr.txt");
    let status = Command::new(&bin)
        .arg(&corpus)
        .arg(format!("-runs={}", runs))
        .arg(format!("-seed={}", seed))
        .arg(format!("-max_len={}", t.max_len))
        .arg("-len_control=0")
        .arg(format!("-artifact_prefix={}/", arts.display()))
        .arg("-print_final_stats=1")
        .arg("-timeout=300")
        .arg("-rss_limit_mb=8192")
        .env("VERIF_FUZZ_STATS", &stats_file)
        .env("VERIF_TMP", dir.path.join("tmp"))
        .env("ASAN_OPTIONS", "detect_leaks=0:abort_on_error=1:allocator_may_return_null=1")
        .env("RUST_BACKTRACE", "0")
        .stdin(Stdio::null())
        .stdout(Stdio::null())
        .stderr(Stdio::from(std::fs::File::create(&errlog).expect("stderr log")))
        .status();
    let stderr = std::fs::read_to_string(&errlog).unwrap_or_default();
    let (execs, cov, ft) = parse_final(&stderr);
    let status = match status {
        Ok(s) => s,
        Err(e) => {
            stats.inconclusive.push(format!("stage {}: cannot start {}: {}", t.stage, bin.display(), e));
            return;
        }
    };
    if let Some(c) = std::fs::read(&stats_file).ok().and_then(|b| serde_json::from_slice::<FuzzCounters>(&b).ok()) {
        stats.evaluations += c.evaluations;
        let st = stats.stages.entry(t.stage.to_string()).or_default();
        st.evaluations += c.evaluations;
        st.nontrivial += c.nontrivial;
        for (k, v) in c.labels {
            *stats.labels.entry(k).or_insert(0) += v;
        }
        stats.nontrivial_hashes.extend(c.hashes);
        stats.samples.extend(c.samples);
    }
    stats.add_extra_count("fuzz_execs", execs);
    let entry = json!({"target": name, "shard": ctx.shard, "seeded_corpus": seeded, "runs": runs, "execs": execs, "cov": cov, "ft": ft});
    match stats.extra.get_mut("fuzz_campaigns") {
        Some(Value::Array(a)) => a.push(entry),
        _ => {
            stats.extra.insert("fuzz_campaigns".into(), json!([entry]));
        }
    }
    if status.success() {
        return;
    }
    // the target stopped on an input: find it
    let mut found: Vec<PathBuf> = std::fs::read_dir(&arts).map(|rd| rd.filter_map(|e| e.ok()).map(|e| e.path()).collect()).unwrap_or_default();
    found.sort();
    let art = found.iter().find(|p| p.file_name().and_then(|n| n.to_str()).map(|n| n.starts_with("crash-")).unwrap_or(false));
    let Some(art) = art else {
        let kind = found.first().and_then(|p| p.file_name()).map(|n| n.to_string_lossy().to_string()).unwrap_or_else(|| "no artifact".into());
        let tail: Vec<&str> = stderr.lines().rev().take(5).collect();
        stats.inconclusive.push(format!("stage {}: fuzzer ended with {} ({}) : {}", t.stage, status, kind, tail.join(" | ")));
        return;
    };
    let data = std::fs::read(art).unwrap_or_default();
    let data = minimise(ctx, name, data);
    let (rep, case, _) = eval(ctx, name, &data);
    match rep.verdict {
        Verdict::Fail(message) => {
            record_failure(ctx, stats, t.stage, &message, case);
        }
        _ => {
            // crashed only in the instrumented build (sanitizer report, abort inside C code):
            // keep the input, report as inconclusive for the property
            let keep = ctx.verif_dir.join("replays").join("found");
            let _ = std::fs::create_dir_all(&keep);
            let dst = keep.join(format!("{}-{}-{}", ctx.prop, name, art.file_name().unwrap().to_string_lossy()));
            let _ = std::fs::copy(art, &dst);
            let tail: Vec<&str> = stderr.lines().filter(|l| l.contains("ERROR") || l.contains("ORACLE") || l.contains("panicked")).take(3).collect();
            stats.inconclusive.push(format!("stage {}: instrumented target stopped on {} but the release oracle accepts the case: {}", t.stage, dst.display(), tail.join(" | ")));
        }
    }
}

fn record_failure(ctx: &Ctx, stats: &mut Stats, stage: &str, message: &str, case: Value) {
    let dir = ctx.verif_dir.join("replays").join("found");
    let _ = std::fs::create_dir_all(&dir);
    let h = crate::util::stable_hash(&case.to_string());
    let path = dir.join(format!("{}-{}-{:08x}.json", ctx.prop, stage, h as u32));
    let body = json!({"property": ctx.prop, "stage": stage, "seed": ctx.seed, "tier": ctx.tier.name(), "message": message, "case": case});
    let _ = std::fs::write(&path, serde_json::to_string_pretty(&body).unwrap());
    stats.failures.push(Failure { stage: stage.to_string(), message: message.to_string(), case, replay_path: path.to_string_lossy().to_string() });
}

/// Greedy byte-level minimisation against *our* oracle (not "any crash"): drop
/// chunks, then zero bytes, while the decoded case still fails. Deterministic.
fn minimise(ctx: &Ctx, name: &str, mut data: Vec<u8>) -> Vec<u8> {
    let fails = |d: &[u8]| eval(ctx, name, d).0.is_fail();
    if !fails(&data) {
        return data;
    }
    let mut budget = 3000u32;
    let mut chunk = (data.len() / 2).max(1);
    while chunk >= 1 && budget > 0 {
        let mut i = 0;
        let mut progressed = false;
        while i + chunk <= data.len() && budget > 0 {
            budget -= 1;
            let mut cand = data.clone();
            cand.drain(i..i + chunk);
            if fails(&cand) {
                data = cand;
                progressed = true;
            } else {
                i += chunk;
            }
        }
        if chunk == 1 && !progressed {
            break;
        }
        if !progressed || chunk > 1 {
            chunk = if chunk == 1 { 1 } else { chunk / 2 };
        }
    }
    for i in 0..data.len() {
        if budget == 0 {
            break;
        }
        if data[i] != 0 {
            budget -= 1;
            let old = data[i];
            data[i] = 0;
            if !fails(&data) {
                data[i] = old;
            }
        }
    }
    data
}

pub fn bin_exists(ctx: &Ctx, name: &str) -> bool {
    Path::new(&fuzz_bin(ctx, name)).exists()
}
