//! One generated collection -> one archive -> everything the archive-level
//! properties look at (C01 C02 C03 C07 C08 …).

use crate::agcref::{self, ArchiveFacts};
use crate::engine::*;
use crate::fasta::{self, Expected};
use crate::gen::Collection;
use crate::pipeline::{self, Built};
use crate::util::letters_to_codes;

pub struct Examined {
    pub built: Built,
    pub expected: Expected,
    pub bytes: Vec<u8>,
    pub facts: Result<ArchiveFacts, String>,
    pub labels: Vec<&'static str>,
}

pub enum Outcome {
    Ready(Examined),
    /// create did not report success: nothing to check for "archives that create reports as written"
    NotCreated(Report),
}

/// labels describing the input (independent of the archive)
pub fn input_labels(c: &Collection) -> Vec<&'static str> {
    let mut l: Vec<&'static str> = Vec::new();
    let p = &c.params;
    l.push(if p.single_file { "mode:single-file" } else { "mode:multi-file" });
    if c.samples.len() >= 2 {
        l.push("samples>=2");
    }
    if c.samples.len() > 50 {
        l.push("samples>50");
    }
    if p.fallback_permille > 0 {
        l.push("fallback>0");
    }
    if p.threads == 1 {
        l.push("threads=1");
    }
    if p.threads >= 8 {
        l.push("threads>=8");
    }
    if c.samples.iter().any(|s| s.contigs.iter().any(|r| r.seq.len() < p.k as usize)) {
        l.push("contig<k");
    }
    if c.samples.iter().any(|s| s.contigs.iter().any(|r| r.seq.bytes().any(|b| !b"ACGTN".contains(&b)))) {
        l.push("iupac-in-input");
    }
    if c.samples.iter().any(|s| s.contigs.iter().any(|r| r.seq.contains("NNNN"))) {
        l.push("n-run>=4");
    }
    // a run of >= 4 N at the same contig index in two samples (a scaffold gap inherited from the ancestor)
    if c.samples.len() >= 2 {
        let first = &c.samples[0];
        if c.samples[1..].iter().any(|s| s.contigs.iter().zip(first.contigs.iter()).any(|(a, b)| a.seq.contains("NNNN") && b.seq.contains("NNNN"))) {
            l.push("n-run-shared-by-samples");
        }
    }
    for a in &c.aims {
        l.push(match a.as_str() {
            "splitter-knock-out" => "aim:splitter-knock-out",
            "iupac-near-knock-out" => "aim:iupac-near-knock-out",
            "whole-contig-revcomp" => "aim:whole-contig-revcomp",
            "identical-sample" => "aim:identical-sample",
            "duplicated-contig" => "aim:duplicated-contig",
            "contig-absent" => "aim:contig-absent",
            "novel-contig" => "aim:novel-contig",
            "contigs-reordered" => "aim:contigs-reordered",
            "many-samples" => "aim:many-samples",
            "variant-next-to-n-run" => "aim:variant-next-to-n-run",
            "orphan-swarm" => "aim:orphan-swarm",
            "sample-revisited-in-a-later-file" => "aim:sample-revisited-in-a-later-file",
            _ => "aim:other",
        });
    }
    if c.pres.gz == 2 {
        l.push("pres:multi-member-gz");
    }
    if c.pres.gz == 1 {
        l.push("pres:gz");
    }
    if c.pres.crlf {
        l.push("pres:crlf");
    }
    if c.pres.case_mode != 0 {
        l.push("pres:lower/mixed-case");
    }
    l
}

/// number of segments plain segmentation with the reference's splitters gives per contig
fn plain_segment_counts(c: &Collection) -> Vec<Vec<usize>> {
    let k = c.params.k as usize;
    let refc: Vec<Vec<u8>> = c.samples[0].contigs.iter().map(|r| letters_to_codes(&r.seq)).collect();
    let (spl, _, _) = ragc_core::determine_splitters(&refc, k, c.params.segment_size as usize);
    c.samples
        .iter()
        .map(|s| s.contigs.iter().map(|r| ragc_core::split_at_splitters_with_size(&letters_to_codes(&r.seq), &spl, k, c.params.segment_size as usize).len()).collect())
        .collect()
}

pub fn examine(ctx: &Ctx, c: &Collection, tag: &str) -> Outcome {
    let t0 = std::time::Instant::now();
    let built = match pipeline::build_archive(ctx, c, tag) {
        Ok(b) => b,
        Err(e) => return Outcome::NotCreated(Report::inconclusive(e)),
    };
    let mut labels = input_labels(c);
    if !built.create.ok() {
        let mut rep = if built.create.timed_out {
            Report::inconclusive(format!("ragc create {}", built.create.describe()))
        } else {
            Report::pass(false)
        };
        labels.push(if built.create.panicked() { "create-panicked" } else { "create-failed" });
        rep.labels = labels;
        return Outcome::NotCreated(rep);
    }
    let bytes = match std::fs::read(&built.archive) {
        Ok(b) => b,
        Err(e) => {
            let mut rep = Report::fail(format!("ragc create exited 0 but the archive cannot be read: {}", e));
            rep.labels = labels;
            return Outcome::NotCreated(rep);
        }
    };
    let t1 = t0.elapsed();
    let facts = agcref::read_archive(&bytes);
    if std::env::var("VERIF_TRACE").is_ok() {
        eprintln!("[trace] samples={} bases={} create={:.2}s (child wall {:.2}s) agcref={:.2}s params={:?}", c.samples.len(), c.total_bases(), t1.as_secs_f64(), built.create.wall.as_secs_f64(), (t0.elapsed() - t1).as_secs_f64(), c.params);
        if built.create.wall.as_secs_f64() > 5.0 {
            let keep = std::path::PathBuf::from("/tmp/p2/slow");
            let _ = std::fs::remove_dir_all(&keep);
            let _ = std::process::Command::new("cp").arg("-r").arg(&built.dir.path).arg(&keep).status();
            eprintln!("[trace] slow case kept in /tmp/p2/slow: {:?}", crate::pipeline::create_args(&c.params, &built.archive, &built.inputs));
        }
    }
    if let Ok(f) = &facts {
        labels.extend(f.classes.iter().copied());
        if f.n_lz_groups > 0 {
            labels.push("lz-groups>0");
        }
        // splits: more segments in the archive than plain segmentation yields
        if c.samples.len() >= 2 && c.total_bases() < 400_000 {
            let plain = plain_segment_counts(c);
            let mut split = false;
            let mut split_rc_iupac = false;
            for (si, s) in f.contigs.iter().enumerate() {
                for (ci, (_, descs, _)) in s.iter().enumerate() {
                    if let Some(&n) = plain.get(si).and_then(|v| v.get(ci)) {
                        if descs.len() > n {
                            split = true;
                            let seq = &c.samples[si].contigs[ci].seq;
                            if descs.iter().any(|d| d.rc) && seq.bytes().any(|b| !b"ACGTN".contains(&b)) {
                                split_rc_iupac = true;
                            }
                        }
                    }
                }
            }
            if split {
                labels.push("split-segment");
            }
            if split_rc_iupac {
                labels.push("split+revcomp+iupac-contig");
            }
        }
    }
    labels.sort();
    labels.dedup();
    Outcome::Ready(Examined { expected: fasta::expected_of(c), built, bytes, facts, labels })
}

pub fn nontrivial(c: &Collection, e: &Examined) -> bool {
    c.samples.len() >= 2 && e.labels.contains(&"lz-delta")
}
