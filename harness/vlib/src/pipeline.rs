//! Driving ragc: the CLI binary (create / getset / listset / …) with a
//! watchdog, and the library reader in-process.

use crate::fasta::Expected;
use crate::gen::{Collection, Params};
use crate::util::codes_to_letters;
use ragc_core::{Decompressor, DecompressorConfig};
use std::io::Read;
use std::path::{Path, PathBuf};
use std::process::{Command, Stdio};
use std::time::{Duration, Instant};

#[derive(Clone, Debug)]
pub struct CmdOut {
    /// None = killed by a signal
    pub code: Option<i32>,
    pub signal: Option<i32>,
    pub stdout: Vec<u8>,
    pub stderr: Vec<u8>,
    pub timed_out: bool,
    pub wall: Duration,
}

impl CmdOut {
    pub fn ok(&self) -> bool {
        self.code == Some(0) && !self.timed_out
    }
    pub fn stderr_tail(&self) -> String {
        let s = String::from_utf8_lossy(&self.stderr);
        let lines: Vec<&str> = s.lines().filter(|l| !l.starts_with("DEBUG") && !l.starts_with("RAGC_END_SPLITTER")).collect();
        let n = lines.len();
        lines[n.saturating_sub(4)..].join(" | ")
    }
    pub fn describe(&self) -> String {
        if self.timed_out {
            format!("timed out after {:.1}s", self.wall.as_secs_f64())
        } else if let Some(s) = self.signal {
            format!("killed by signal {} ({})", s, self.stderr_tail())
        } else {
            format!("exit {} ({})", self.code.unwrap_or(-1), self.stderr_tail())
        }
    }
    pub fn panicked(&self) -> bool {
        String::from_utf8_lossy(&self.stderr).contains("panicked at")
    }
}

pub fn run_cmd(mut cmd: Command, timeout: Duration) -> std::io::Result<CmdOut> {
    use std::os::unix::process::{CommandExt, ExitStatusExt};
    cmd.stdin(Stdio::null()).stdout(Stdio::piped()).stderr(Stdio::piped());
    // symbolising a backtrace for every reported error costs ~150 ms per failing command
    cmd.env("RUST_BACKTRACE", "0").env_remove("RUST_LIB_BACKTRACE");
    unsafe {
        cmd.pre_exec(|| {
            libc::prctl(libc::PR_SET_PDEATHSIG, libc::SIGKILL);
            Ok(())
        });
    }
    let start = Instant::now();
    let mut child = cmd.spawn()?;
    let mut so = child.stdout.take().unwrap();
    let mut se = child.stderr.take().unwrap();
    let t1 = std::thread::spawn(move || {
        let mut v = Vec::new();
        let _ = so.read_to_end(&mut v);
        v
    });
    let t2 = std::thread::spawn(move || {
        let mut v = Vec::new();
        let _ = se.read_to_end(&mut v);
        v
    });
    let mut timed_out = false;
    let status = loop {
        match child.try_wait()? {
            Some(s) => break s,
            None => {
                if start.elapsed() > timeout {
                    timed_out = true;
                    let _ = child.kill();
                    break child.wait()?;
                }
                std::thread::sleep(Duration::from_millis(2));
            }
        }
    };
    let stdout = t1.join().unwrap_or_default();
    let stderr = t2.join().unwrap_or_default();
    Ok(CmdOut { code: status.code(), signal: status.signal(), stdout, stderr, timed_out, wall: start.elapsed() })
}

pub fn create_args(p: &Params, out: &Path, inputs: &[PathBuf]) -> Vec<String> {
    let mut a: Vec<String> = vec![
        "create".into(),
        "-o".into(),
        out.to_string_lossy().to_string(),
        "-k".into(),
        p.k.to_string(),
        "-s".into(),
        p.segment_size.to_string(),
        "-m".into(),
        p.min_match.to_string(),
        "-l".into(),
        p.pack.to_string(),
        "-t".into(),
        p.threads.to_string(),
        "-v".into(),
        "0".into(),
        "--queue-capacity".into(),
        p.queue_capacity.to_string(),
    ];
    if p.fallback_permille > 0 {
        a.push("--fallback-frac".into());
        a.push(format!("{}", p.fallback_permille as f64 / 1000.0));
    }
    for i in inputs {
        a.push(i.to_string_lossy().to_string());
    }
    a
}

pub const CREATE_TIMEOUT: Duration = Duration::from_secs(120);

pub fn cli_create(ragc: &Path, p: &Params, out: &Path, inputs: &[PathBuf]) -> std::io::Result<CmdOut> {
    let mut cmd = Command::new(ragc);
    cmd.args(create_args(p, out, inputs));
    cmd.env_remove("RAGC_SYNC_PER_SAMPLE");
    run_cmd(cmd, CREATE_TIMEOUT)
}

pub fn cli(ragc: &Path, args: &[&str]) -> std::io::Result<CmdOut> {
    let mut cmd = Command::new(ragc);
    cmd.args(args);
    run_cmd(cmd, Duration::from_secs(60))
}

/// Read everything back through the library reader: sample list in archive
/// order and every sample's contigs (codes mapped to letters).
pub fn read_all(archive: &Path) -> Result<Expected, String> {
    let path = archive.to_string_lossy().to_string();
    let mut d = Decompressor::open(&path, DecompressorConfig { verbosity: 0 }).map_err(|e| format!("open failed: {:#}", e))?;
    let mut out = Vec::new();
    for s in d.list_samples() {
        let contigs = d.get_sample(&s).map_err(|e| format!("get_sample({:?}) failed: {:#}", s, e))?;
        out.push((s, contigs.into_iter().map(|(n, c)| (n, codes_to_letters(&c))).collect()));
    }
    Ok(out)
}

/// A created archive with everything the archive-level checks look at.
pub struct Built {
    pub dir: crate::util::Scratch,
    pub archive: PathBuf,
    pub inputs: Vec<PathBuf>,
    pub create: CmdOut,
}

pub fn build_archive(ctx: &crate::engine::Ctx, c: &Collection, tag: &str) -> Result<Built, String> {
    let dir = ctx.scratch(tag);
    let inputs = crate::fasta::write_inputs(c, &dir.path.join("in")).map_err(|e| format!("harness: cannot write inputs: {}", e))?;
    let archive = dir.file("out.agc");
    let create = cli_create(&ctx.ragc, &c.params, &archive, &inputs).map_err(|e| format!("harness: cannot run ragc: {}", e))?;
    Ok(Built { dir, archive, inputs, create })
}

// ------------------------------------------------------------ in-process create --

/// Knobs for the in-process create (what the harness, as producer, may vary).
#[derive(Clone, Debug, Default)]
pub struct InprocOpts {
    /// sleep before the i-th push (cyclic), microseconds
    pub push_delays_us: Vec<u32>,
    /// extra explicit sync_and_flush after every n-th contig (0 = never)
    pub extra_sync_every: usize,
}

/// The exact call sequence of `ragc create` (ragc-cli/src/main.rs, streaming-queue mode),
/// driven in-process so that hooks can be installed and the `Result`s are visible.
pub fn create_inproc(p: &Params, inputs: &[PathBuf], out: &Path, opts: &InprocOpts) -> Result<(), String> {
    use ragc_core::contig_iterator::ContigIterator;
    use ragc_core::{MultiFileIterator, StreamingQueueCompressor, StreamingQueueConfig};
    if inputs.is_empty() {
        return Err("No input files provided".into());
    }
    let config = StreamingQueueConfig {
        k: p.k as usize,
        segment_size: p.segment_size as usize,
        min_match_len: p.min_match as usize,
        pack_size: p.pack as usize,
        queue_capacity: p.queue_capacity as usize,
        num_threads: p.threads as usize,
        verbosity: 0,
        adaptive_mode: false,
        fallback_frac: p.fallback_permille as f64 / 1000.0,
        concatenated_genomes: inputs.len() == 1,
        ..StreamingQueueConfig::default()
    };
    let e = |x: anyhow::Error| format!("{:#}", x);
    let splitters = if inputs.len() == 1 {
        ragc_core::determine_splitters_streaming_first_sample(&inputs[0], p.k as usize, p.segment_size as usize).map_err(e)?.0
    } else {
        ragc_core::determine_splitters_streaming(&inputs[0], p.k as usize, p.segment_size as usize).map_err(e)?.0
    };
    let mut compressor = StreamingQueueCompressor::with_splitters(out.to_string_lossy().to_string(), config, splitters).map_err(e)?;
    let mut pushed = 0usize;
    let mut pace = |compressor: &StreamingQueueCompressor, sample: &str| -> Result<(), String> {
        if !opts.push_delays_us.is_empty() {
            let d = opts.push_delays_us[pushed % opts.push_delays_us.len()];
            if d > 0 {
                std::thread::sleep(Duration::from_micros(d as u64));
            }
        }
        pushed += 1;
        if opts.extra_sync_every > 0 && pushed % opts.extra_sync_every == 0 {
            compressor.sync_and_flush(sample).map_err(|x| format!("{:#}", x))?;
        }
        Ok(())
    };
    if inputs.len() == 1 {
        let mut it = MultiFileIterator::new(vec![inputs[0].clone()]).map_err(e)?;
        let mut current: Option<String> = None;
        let mut seen: std::collections::HashSet<String> = Default::default();
        let mut reference_done = false;
        while let Some((sample, contig, seq)) = it.next_contig().map_err(e)? {
            if seq.is_empty() {
                continue;
            }
            if current.as_ref() != Some(&sample) {
                if seen.contains(&sample) {
                    return Err(format!("Single-file PanSN mode requires samples to be sorted by name. Saw sample '{}' again", sample));
                }
                if !reference_done && current.is_some() {
                    compressor.drain().map_err(e)?;
                    reference_done = true;
                }
                if let Some(prev) = current.take() {
                    seen.insert(prev);
                }
                current = Some(sample.clone());
            }
            pace(&compressor, &sample)?;
            compressor.push(sample, contig, seq).map_err(e)?;
        }
    } else {
        let mut it = MultiFileIterator::new(vec![inputs[0].clone()]).map_err(e)?;
        while let Some((sample, contig, seq)) = it.next_contig().map_err(e)? {
            if !seq.is_empty() {
                pace(&compressor, &sample)?;
                compressor.push(sample, contig, seq).map_err(e)?;
            }
        }
        compressor.drain().map_err(e)?;
        compressor.sync_and_flush("AAA#0_REF").map_err(e)?;
        for f in &inputs[1..] {
            let mut it = MultiFileIterator::new(vec![f.clone()]).map_err(e)?;
            while let Some((sample, contig, seq)) = it.next_contig().map_err(e)? {
                if !seq.is_empty() {
                    pace(&compressor, &sample)?;
                    compressor.push(sample, contig, seq).map_err(e)?;
                }
            }
        }
    }
    compressor.finalize().map_err(e)
}

/// Spawn `exe` with a file-size limit: the first write that would pass `limit` bytes fails with
/// EFBIG (SIGXFSZ ignored), after a partial write - the same shape as a full disk.
pub fn run_with_fsize_limit(mut cmd: Command, limit: u64, timeout: Duration) -> std::io::Result<CmdOut> {
    use std::os::unix::process::CommandExt;
    unsafe {
        cmd.pre_exec(move || {
            libc::signal(libc::SIGXFSZ, libc::SIG_IGN);
            let lim = libc::rlimit { rlim_cur: limit, rlim_max: limit };
            if libc::setrlimit(libc::RLIMIT_FSIZE, &lim) != 0 {
                return Err(std::io::Error::last_os_error());
            }
            Ok(())
        });
    }
    run_cmd(cmd, timeout)
}
