//! C04 — archive bytes depend only on inputs and parameters, not on threads or timing.

use crate::agcref;
use crate::engine::*;
use crate::fasta;
use crate::gen::{self, Collection, GenCfg};
use crate::pipecheck::{run_spec, Outcome, Schedule, Spec};
use proptest::prelude::*;
use serde::{Deserialize, Serialize};
use serde_json::Value;

#[derive(Clone, Debug, Hash, Serialize, Deserialize)]
pub struct DetCase {
    pub collection: Collection,
    pub schedules: Vec<Schedule>,
}

pub const F_SINGLE_FILE: &str = "C04-single-file-sync-rounds";

fn diverging_part(a: &[u8], b: &[u8]) -> String {
    match (agcref::Container::parse(a), agcref::Container::parse(b)) {
        (Ok(ca), Ok(cb)) => {
            if ca.streams.len() != cb.streams.len() {
                return format!("{} vs {} streams", ca.streams.len(), cb.streams.len());
            }
            for (sa, sb) in ca.streams.iter().zip(cb.streams.iter()) {
                if sa.name != sb.name {
                    return format!("stream order differs: {:?} vs {:?}", sa.name, sb.name);
                }
                if sa.parts.len() != sb.parts.len() {
                    return format!("stream {:?}: {} vs {} parts", sa.name, sa.parts.len(), sb.parts.len());
                }
                for i in 0..sa.parts.len() {
                    if let (Ok(pa), Ok(pb)) = (ca.part(sa, i), cb.part(sb, i)) {
                        if pa != pb {
                            return format!("stream {:?} part {} differs ({} vs {} bytes, metadata {} vs {})", sa.name, i, pa.1.len(), pb.1.len(), pa.0, pb.0);
                        }
                    }
                }
            }
            "same parts, different layout".to_string()
        }
        _ => "one of the archives does not parse".to_string(),
    }
}

pub fn check_in(ctx: &Ctx, case: &DetCase, creates: &std::cell::Cell<u64>) -> Report {
    let c = &case.collection;
    let dir = ctx.scratch("c04");
    let inputs = match fasta::write_inputs(c, &dir.path.join("in")) {
        Ok(i) => i,
        Err(e) => return Report::inconclusive(format!("harness: cannot write inputs: {}", e)),
    };
    let token_rounds = c.params.single_file && c.n_contigs() as u32 >= c.params.pack;
    let mut rep = Report::pass(false)
        .label(if c.params.single_file { "mode:single-file" } else { "mode:multi-file" })
        .label_if(token_rounds, "single-file>=1-pack-boundary-round")
        .label_if(c.samples.len() >= 2, "samples>=2");
    let mut outs: Vec<(usize, Outcome, Vec<u8>)> = Vec::new();
    let mut thread_counts = std::collections::BTreeSet::new();
    let mut backpressure = false;
    for (i, s) in case.schedules.iter().enumerate() {
        let mut sch = s.clone();
        let largest = c.largest_contig() as u64;
        if sch.queue_capacity <= largest {
            sch.queue_capacity = largest + 1;
        }
        let out = dir.file(&format!("a{}.agc", i));
        let spec = Spec { params: c.params.clone(), schedule: sch.clone(), inputs: inputs.clone(), out: out.clone(), watchdog_s: 120 };
        let o = match run_spec(&spec, &dir.path, &i.to_string()) {
            Ok(o) => o,
            Err(e) => return Report::inconclusive(e),
        };
        creates.set(creates.get() + 1);
        if o.status == "slow" || o.status.starts_with("stuck") {
            return Report::inconclusive(format!("create #{} did not finish ({}); termination is C05's subject", i, o.status));
        }
        if o.status != "ok" {
            // the same inputs must not succeed under one schedule and fail under another
            if let Some((j, _, _)) = outs.first() {
                return Report { verdict: Verdict::Fail(format!("schedule #{} ({} threads) ends with '{}' while schedule #{} succeeds", i, sch.threads, o.status, j)), ..rep };
            }
            return rep.label("create-failed");
        }
        thread_counts.insert(sch.threads);
        if o.producer_waits > 0 {
            backpressure = true;
        }
        let bytes = std::fs::read(&out).unwrap_or_default();
        outs.push((i, o, bytes));
    }
    let (i0, o0, b0) = &outs[0];
    for (i, o, b) in outs.iter().skip(1) {
        if o.sha256 != o0.sha256 {
            let what = format!(
                "same inputs and parameters, different archives: schedule #{} ({} threads, sha256 {}) vs schedule #{} ({} threads, sha256 {}); {}",
                i0,
                case.schedules[*i0].threads,
                o0.sha256.as_deref().map(|s| &s[..12]).unwrap_or("-"),
                i,
                case.schedules[*i].threads,
                o.sha256.as_deref().map(|s| &s[..12]).unwrap_or("-"),
                diverging_part(b0, b)
            );
            if token_rounds && ctx.known.is_open(F_SINGLE_FILE) {
                // recorded finding: only the extraction has to agree there
                let (va, vb) = (agcref::read_archive(b0), agcref::read_archive(b));
                let same = match (va, vb) {
                    (Ok(x), Ok(y)) => x.samples == y.samples && x.contigs.iter().map(|s| s.iter().map(|c| (&c.0, &c.2)).collect::<Vec<_>>()).collect::<Vec<_>>() == y.contigs.iter().map(|s| s.iter().map(|c| (&c.0, &c.2)).collect::<Vec<_>>()).collect::<Vec<_>>(),
                    _ => false,
                };
                if !same {
                    return Report { verdict: Verdict::Fail(format!("{} - and the two archives do not even extract to the same collection", what)), ..rep };
                }
                rep.verdict = Verdict::Known { id: F_SINGLE_FILE.into(), what: ctx.known.what(F_SINGLE_FILE) };
                rep.nontrivial = true;
                return rep;
            }
            return Report { verdict: Verdict::Fail(what), ..rep };
        }
    }
    let has_lz = agcref::read_archive(b0).map(|f| f.n_lz_groups > 0).unwrap_or(false);
    rep.nontrivial = c.samples.len() >= 2 && thread_counts.iter().any(|&t| t >= 2) && has_lz;
    rep.label_if(backpressure, "back-pressure-seen")
        .label_if(thread_counts.len() >= 3, "thread-counts>=3")
        .label_if(thread_counts.contains(&16), "threads=16")
        .label_if(thread_counts.contains(&1), "threads=1")
        .label_if(outs.iter().any(|o| o.1.rounds >= 3), "sync-rounds>=3")
        .label_if(outs.iter().any(|o| o.1.tokens_behind_contigs), "tokens-queued-behind-contigs")
}

pub fn schedule_strategy() -> impl Strategy<Value = Schedule> {
    (
        prop_oneof![Just(1u32), Just(2u32), Just(3u32), Just(4u32), Just(8u32), Just(16u32)],
        prop_oneof![2 => Just(0u64), 2 => Just(64 * 1024u64), 2 => Just(1 << 20), 3 => Just(2u64 << 30)],
        prop::collection::vec(prop_oneof![5 => Just(0u32), 2 => 1u32..200, 1 => 200u32..2000], 1..8),
        any::<u64>(),
        prop_oneof![2 => Just(0u32), 3 => Just(50_000u32), 2 => Just(300_000u32)],
        prop_oneof![Just(20u32), Just(100u32), Just(400u32)],
    )
        .prop_map(|(threads, queue_capacity, push_delays_us, perturb_seed, perturb_ppm, max_pause_us)| Schedule { threads, queue_capacity, push_delays_us, extra_sync_every: 0, perturb_seed, perturb_ppm, max_pause_us })
}

fn strat(n_sched: std::ops::Range<usize>) -> impl Strategy<Value = DetCase> {
    let cfg = GenCfg { max_contig: 2500, max_samples: 5, many_samples_pct: 8, single_file: None, vary_presentation: false, swarm_pct: 0 };
    let general = gen::collection_strategy(cfg);
    // one PanSN file with sync-token rounds every -l contigs
    let rounds = (gen::collection_strategy(GenCfg { max_contig: 1500, max_samples: 5, many_samples_pct: 15, single_file: Some(true), vary_presentation: false, swarm_pct: 0 }), 1u32..9).prop_map(|(mut c, pack)| {
        c.params.pack = pack;
        c
    });
    (prop_oneof![3 => general, 2 => rounds], prop::collection::vec(schedule_strategy(), n_sched)).prop_map(|(collection, mut schedules)| {
        // at least three distinct thread counts per case
        let wanted = [1u32, 4, 16, 2, 8, 3];
        let mut k = 0;
        while schedules.iter().map(|s| s.threads).collect::<std::collections::BTreeSet<_>>().len() < 3 && k < schedules.len() {
            schedules[k].threads = wanted[k % wanted.len()];
            k += 1;
        }
        DetCase { collection, schedules }
    })
}

pub fn run(ctx: &Ctx, stats: &mut Stats) {
    let c2 = ctx.clone();
    let creates = std::cell::Cell::new(0u64);
    let n = ctx.tier.pick(32, 800);
    {
        let check = |c: &DetCase| check_in(&c2, c, &creates);
        if ctx.tier == Tier::Quick {
            run_prop(ctx, stats, "schedules", n, strat(5..8), &check);
        } else {
            run_prop(ctx, stats, "schedules", n, strat(8..13), &check);
        }
    }
    stats.add_extra_count("creates", creates.get());
}

pub fn replay(ctx: &Ctx, _stage: &str, case: &Value) -> Report {
    let creates = std::cell::Cell::new(0u64);
    match from_case::<DetCase>(case) {
        Ok(c) => check_in(ctx, &c, &creates),
        Err(e) => Report::fail(e),
    }
}

pub const INFO: PropInfo = PropInfo {
    id: "C04",
    level: "exploration",
    rule: "cases = a generated collection (3/5 general C01 space, 2/5 one PanSN file with -l 1..8 so that sync-token rounds happen every few contigs; some with > 50 samples) x a schedule set of 5..7 (quick) / 8..12 (thorough) creates that differ only in worker-thread count (from {1,2,3,4,8,16}, at least 3 distinct per case), queue capacity (just above the largest contig, 64 KiB, 1 MiB, 2 GiB), producer-side delays before pushes (0..2000 us, generated vector) and worker-side perturbation (hook H2: seeded pauses / yields after the queue pull, before the raw-buffer push, before each of the 4 barrier waits and in the phase-3 claim loop, probability 0 / 5 % / 30 %, up to 20 / 100 / 400 us). Each create runs the library in-process exactly as the CLI drives it, in its own child process. Oracle (metamorphic): every create of a case yields the same SHA-256; on a mismatch the diverging stream / part is named with the independent parser. Perturbation only widens the interleavings that get sampled; the verdict is the byte comparison. Non-trivial = >= 2 samples, a create with >= 2 threads, and an LZ group in the archive; distinct = distinct case. `creates` counts the archives built.",
    assumptions: &["OS-thread interleavings are sampled (with perturbation), not enumerated: a race needing a window the perturbation never opens is missed", "every contig fits the queue capacity"],
    needs_cli: false,
    needs_checked: false,
    max_shards: 16,
    shrink_iters: 12,
    watchdog_s: (2400, 14400),
    run,
    replay,
};
