use crate::engine::PropInfo;

pub mod c20;

pub fn registry() -> Vec<&'static PropInfo> {
    vec![&c20::INFO]
}

pub fn find(id: &str) -> Option<&'static PropInfo> {
    registry().into_iter().find(|p| p.id == id)
}
