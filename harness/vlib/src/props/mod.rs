use crate::engine::PropInfo;

pub mod c01;
pub mod c02;
pub mod c03;
pub mod c04;
pub mod c05;
pub mod c06;
pub mod c07;
pub mod c08;
pub mod c09;
pub mod c10;
pub mod c11;
pub mod c12;
pub mod c13;
pub mod c14;
pub mod c15;
pub mod c16;
pub mod c17;
pub mod c18;
pub mod c19;
pub mod c20;

pub fn registry() -> Vec<&'static PropInfo> {
    vec![&c01::INFO, &c02::INFO, &c03::INFO, &c04::INFO, &c05::INFO, &c06::INFO, &c07::INFO, &c08::INFO, &c09::INFO, &c10::INFO, &c11::INFO, &c12::INFO, &c13::INFO, &c14::INFO, &c15::INFO, &c16::INFO, &c17::INFO, &c18::INFO, &c19::INFO, &c20::INFO]
}

pub fn find(id: &str) -> Option<&'static PropInfo> {
    registry().into_iter().find(|p| p.id == id)
}
