//! C10 — segmentation tiles each contig with exact k-base overlaps at splitters.

use crate::engine::*;
use crate::naive;
use crate::util::{mix, SplitMix};
use ahash::AHashSet;
use proptest::prelude::*;
use ragc_core::segment::MISSING_KMER;
use ragc_core::{split_at_splitters, split_at_splitters_with_size};
use serde::{Deserialize, Serialize};
use serde_json::Value;

#[derive(Clone, Debug, Hash, Serialize, Deserialize)]
pub struct SegCase {
    pub contig: Vec<u8>,
    pub k: u8,
    pub splitters: Vec<u64>,
    /// true: split_at_splitters_with_size (what the compressor uses); false: split_at_splitters
    pub with_size: bool,
}

pub fn check(case: &SegCase) -> Report {
    let k = case.k as usize;
    let contig = &case.contig;
    let set: AHashSet<u64> = case.splitters.iter().copied().collect();
    let segs = if case.with_size { split_at_splitters_with_size(contig, &set, k, 1000) } else { split_at_splitters(contig, &set, k) };
    let wins = naive::windows(contig, k);
    let occurrences: Vec<usize> = wins.iter().filter(|(_, w)| set.contains(&naive::canonical(w))).map(|(e, _)| *e).collect();

    let mut rep = Report::pass(segs.len() >= 3)
        .label(if case.with_size { "fn:with_size" } else { "fn:plain" })
        .label_if(k == 32, "k=32")
        .label_if(k == 1, "k=1")
        .label_if(contig.len() < k, "shorter-than-k")
        .label_if(occurrences.is_empty(), "no-occurrence")
        .label_if(!wins.is_empty() && occurrences.len() * 2 >= wins.len(), "dense-set")
        .label_if(occurrences.iter().any(|&e| e + k >= contig.len() && e + 1 < contig.len()), "splitter-in-last-k")
        .label_if(occurrences.last() == Some(&(contig.len().wrapping_sub(1))), "splitter-at-last-base");

    if segs.is_empty() {
        return Report::fail("no segment returned".to_string());
    }
    // tiling with exact k overlaps
    let mut start = 0usize;
    let mut rebuilt: Vec<u8> = Vec::new();
    for (i, s) in segs.iter().enumerate() {
        if i > 0 && s.data.len() < k {
            return Report::fail(format!("segment {} has {} bases, fewer than k={}", i, s.data.len(), k));
        }
        let end = start + s.data.len();
        if end > contig.len() || contig[start..end] != s.data[..] {
            return Report::fail(format!("segment {} is not contig[{}..{}) (segment {} must begin exactly k bases before the previous one ends)", i, start, end, i));
        }
        if i == 0 {
            rebuilt.extend_from_slice(&s.data);
        } else {
            rebuilt.extend_from_slice(&s.data[k..]);
        }
        if i + 1 < segs.len() {
            if end < k {
                return Report::fail(format!("segment {} ends at {} < k", i, end));
            }
            // internal boundary k-mer = the k bases shared with the next segment
            let w = &contig[end - k..end];
            if w.iter().any(|&c| c > 3) {
                return Report::fail(format!("boundary after segment {} contains a non-ACGT symbol", i));
            }
            let canon = naive::canonical(w);
            if !set.contains(&canon) {
                return Report::fail(format!("boundary k-mer {:#018x} after segment {} is not in the splitter set", canon, i));
            }
            let next = &segs[i + 1];
            if s.back_kmer != canon || next.front_kmer != canon {
                return Report::fail(format!(
                    "boundary k-mer {:#018x}: back of segment {} is {:#018x}, front of segment {} is {:#018x}",
                    canon,
                    i,
                    s.back_kmer,
                    i + 1,
                    next.front_kmer
                ));
            }
            let dir = naive::is_dir(w);
            if s.back_kmer_is_dir != dir || next.front_kmer_is_dir != dir {
                return Report::fail(format!("direction flags at boundary after segment {}: back {}, front {}, model {}", i, s.back_kmer_is_dir, next.front_kmer_is_dir, dir));
            }
            if end == contig.len() {
                rep = rep.label("trailing-kmer-only-segment");
            }
            start = end - k;
        } else if end != contig.len() {
            return Report::fail(format!("last segment ends at {} but the contig has {} bases", end, contig.len()));
        }
    }
    if &rebuilt != contig {
        return Report::fail("dropping the first k bases of later segments and concatenating does not reproduce the contig".to_string());
    }
    if segs[0].front_kmer != MISSING_KMER {
        return Report::fail("first segment has a front k-mer".to_string());
    }
    if segs[segs.len() - 1].back_kmer != MISSING_KMER {
        return Report::fail("last segment has a back k-mer".to_string());
    }
    if (occurrences.is_empty() || contig.len() < k) && !(segs.len() == 1 && segs[0].front_kmer == MISSING_KMER && segs[0].back_kmer == MISSING_KMER) {
        return Report::fail(format!("contig without splitter occurrence (or shorter than k) gave {} segments", segs.len()));
    }
    rep.label_if(segs.len() >= 10, "segments>=10")
}

#[derive(Clone, Debug)]
enum Density {
    None,
    One,
    Sparse,
    Half,
    All,
}

fn build(contig: Vec<u8>, k: u8, density: Density, seed: u64, force_last: bool, force_adjacent: bool, foreign: u8, with_size: bool) -> SegCase {
    let wins = naive::windows(&contig, k as usize);
    let mut set: Vec<u64> = Vec::new();
    let mut r = SplitMix::new(seed);
    let thr: u64 = match density {
        Density::None => 0,
        Density::One => 0,
        Density::Sparse => u64::MAX / 40,
        Density::Half => u64::MAX / 2,
        Density::All => u64::MAX,
    };
    for (_, w) in &wins {
        let c = naive::canonical(w);
        if mix(seed, c) <= thr && thr > 0 {
            set.push(c);
        }
    }
    if matches!(density, Density::One) && !wins.is_empty() {
        let i = r.below(wins.len() as u64) as usize;
        set.push(naive::canonical(wins[i].1));
    }
    if force_last {
        if let Some((_, w)) = wins.last() {
            set.push(naive::canonical(w));
        }
        // and one inside the last k bases
        if wins.len() > 2 {
            let i = wins.len() - 1 - r.below((k as u64).min(wins.len() as u64 - 1)) as usize;
            set.push(naive::canonical(wins[i].1));
        }
    }
    if force_adjacent && wins.len() > 3 {
        let i = r.below(wins.len() as u64 - 2) as usize;
        set.push(naive::canonical(wins[i].1));
        set.push(naive::canonical(wins[i + 1].1));
        set.push(naive::canonical(wins[i + 2].1));
    }
    for _ in 0..foreign {
        let shift = 64 - 2 * k as u32;
        set.push((r.next() >> shift) << shift);
    }
    set.sort_unstable();
    set.dedup();
    SegCase { contig, k, splitters: set, with_size }
}


/// libFuzzer leg: [k][flags][selector length][selector bits...][contig symbols...]
/// window i of the contig is a splitter when bit i (mod selector size) is set.
pub fn from_fuzz(data: &[u8]) -> SegCase {
    use crate::fuzzing::{sym, Cur};
    let mut c = Cur::new(data);
    let k = 1 + c.u8() % 32;
    let flags = c.u8();
    let with_size = flags & 1 == 1;
    let mode = (flags >> 1) & 3;
    let sl = (c.u8() % 17) as usize;
    let sel: Vec<u8> = c.take(sl).to_vec();
    let foreign = (flags >> 3) & 1;
    let fseed = c.u8() as u64;
    let contig: Vec<u8> = c.rest().iter().map(|&b| sym(b)).collect();
    let wins = naive::windows(&contig, k as usize);
    let mut set: Vec<u64> = Vec::new();
    for (i, (_, w)) in wins.iter().enumerate() {
        let pick = match mode {
            1 => true,
            2 => mix(fseed, naive::canonical(w)) <= u64::MAX / 16,
            _ => !sel.is_empty() && (sel[(i / 8) % sel.len()] >> (i % 8)) & 1 == 1,
        };
        if pick || (mode == 3 && i + 1 == wins.len()) {
            set.push(naive::canonical(w));
        }
    }
    if foreign == 1 {
        let shift = 64 - 2 * k as u32;
        set.push((mix(fseed, 77) >> shift) << shift);
    }
    set.sort_unstable();
    set.dedup();
    SegCase { contig, k, splitters: set, with_size }
}

pub fn fuzz_seeds() -> Vec<Vec<u8>> {
    let mut r = SplitMix::new(0xC10);
    let body: Vec<u8> = (0..400).map(|_| (r.next() & 0x7f) as u8).collect();
    let mut out = Vec::new();
    for (k, flags, sel) in [(11u8, 1u8, vec![0x01u8, 0, 0, 0x10]), (3, 3, vec![]), (31, 7, vec![0x80, 0, 0, 0, 0, 0, 1]), (0, 0, vec![0xff])] {
        let mut v = vec![k, flags, sel.len() as u8];
        v.extend_from_slice(&sel);
        v.push(9);
        v.extend_from_slice(&body);
        out.push(v);
    }
    out
}

fn contig_strategy() -> impl Strategy<Value = Vec<u8>> {
    let acgt = prop::collection::vec(0u8..4, 0..600);
    let long = (any::<u64>(), 600usize..3000).prop_map(|(s, n)| {
        let mut r = SplitMix::new(s);
        (0..n).map(|_| r.below(4) as u8).collect::<Vec<u8>>()
    });
    let with_other = prop::collection::vec(prop_oneof![30 => 0u8..4, 1 => 4u8..16], 0..400);
    // short period / homopolymer stretches: overlapping and repeated k-mer occurrences
    let low = (prop::collection::vec(0u8..4, 1..6), 0usize..300, prop::collection::vec(0u8..4, 0..40))
        .prop_map(|(unit, n, tail)| unit.iter().cycle().take(n).copied().chain(tail).collect::<Vec<u8>>());
    // N runs and non-ACGT at the ends
    let framed = (prop::collection::vec(0u8..4, 0..300), 0usize..8, 0usize..8, 4u8..16)
        .prop_map(|(mid, a, b, code)| std::iter::repeat(code).take(a).chain(mid).chain(std::iter::repeat(4u8).take(b)).collect::<Vec<u8>>());
    prop_oneof![4 => acgt, 2 => long, 3 => with_other, 2 => low, 1 => framed]
}

fn strat() -> impl Strategy<Value = SegCase> {
    let k = prop_oneof![4 => 1u8..=32, 2 => 2u8..=8, 1 => Just(32u8), 1 => Just(1u8), 2 => 9u8..=21];
    let density = prop_oneof![
        1 => Just(Density::None),
        2 => Just(Density::One),
        4 => Just(Density::Sparse),
        2 => Just(Density::Half),
        2 => Just(Density::All),
    ];
    (contig_strategy(), k, density, any::<u64>(), prop::bool::weighted(0.3), prop::bool::weighted(0.3), 0u8..3, prop::bool::weighted(0.7))
        .prop_map(|(c, k, d, seed, fl, fa, foreign, ws)| build(c, k, d, seed, fl, fa, foreign, ws))
}

pub fn run(ctx: &Ctx, stats: &mut Stats) {
    // exhaustive: all contigs of length <= 9 over {A,C,N} x k in 1..3 x "every k-mer is a splitter" / "only A..A-free ones"
    let items = (1u8..=3).flat_map(|k| {
        (0usize..=9).flat_map(move |len| {
            (0..3u64.pow(len as u32)).flat_map(move |mut idx| {
                let mut contig = Vec::with_capacity(len);
                for _ in 0..len {
                    contig.push([0u8, 1, 4][(idx % 3) as usize]);
                    idx /= 3;
                }
                [true, false].into_iter().flat_map(move |ws| {
                    let c1 = build(contig.clone(), k, Density::All, 1, false, false, 0, ws);
                    let c2 = build(contig.clone(), k, Density::Half, 7, false, false, 0, ws);
                    [c1, c2]
                })
            })
        })
    });
    run_exhaustive(ctx, stats, "exh-small", items, &check);
    let n = ctx.tier.pick(2_000_000, 30_000_000);
    run_prop(ctx, stats, "random", n, strat(), &check);
    if ctx.tier == Tier::Thorough || std::env::var("VERIF_FUZZ").is_ok() {
        crate::fuzzing::run_stage(ctx, stats, "seg", ctx.tier.pick(400_000, 8_000_000));
    }
}

pub fn replay(_ctx: &Ctx, _stage: &str, case: &Value) -> Report {
    match from_case::<SegCase>(case) {
        Ok(c) => check(&c),
        Err(e) => Report::fail(e),
    }
}

pub const INFO: PropInfo = PropInfo {
    id: "C10",
    level: "exploration",
    rule: "cases = (contig over codes 0..15, k in 1..32, splitter set, entry point); the splitter set is built from the contig's own canonical k-mers with density none / one / sparse / half / all, plus forced placements in the last k bases and in adjacent overlapping windows (homopolymers, short periods), plus foreign k-mers; exhaustive: every contig of length <= 9 over {A,C,N} for k in 1..3 with all / half of its k-mers as splitters, both entry points. Oracle: the statement itself, evaluated on positions (segment i is contig[start_i..end_i), start_{i+1} = end_i - k, later segments >= k bases, boundary window all-ACGT, canonical value in the set, equal to back k-mer of i and front k-mer of i+1, direction flags equal to the naive fwd<=rc, first front / last back missing, no occurrence or |contig|<k => one segment). Non-trivial = at least 3 segments; distinct = distinct case.",
    assumptions: &["which splitter occurrences are used is not asserted (the statement does not fix it and the two entry points differ in it)"],
    needs_cli: false,
    needs_checked: false,
    max_shards: 16,
    shrink_iters: 400,
    watchdog_s: (900, 10800),
    run,
    replay,
};
