//! C12 — segment / pack compression is lossless for every byte string.

use crate::agcref;
use crate::engine::*;
use crate::util::SplitMix;
use proptest::prelude::*;
use ragc_core::tuple_packing::{bytes_to_tuples, tuples_to_bytes};
use ragc_core::{compress_reference_segment, compress_segment, compress_segment_configured, decompress_segment, decompress_segment_with_marker};
use serde::{Deserialize, Serialize};
use serde_json::Value;

#[derive(Clone, Debug, Hash, Serialize, Deserialize)]
pub struct BytesCase {
    pub data: Vec<u8>,
    /// ZSTD level for the delta-pack path
    pub level: i32,
    /// also run the (slower) ZSTD paths
    pub zstd: bool,
    /// compare with the same calls made on a fresh thread
    pub fresh_thread: bool,
}

fn width_of(data: &[u8]) -> usize {
    match data.iter().max() {
        None => 1,
        Some(&m) if m < 4 => 4,
        Some(&m) if m < 6 => 3,
        Some(&m) if m < 16 => 2,
        _ => 1,
    }
}

fn zstd_paths(data: &Vec<u8>, level: i32) -> Result<(Vec<u8>, u8, Vec<u8>), String> {
    let (comp, marker) = compress_reference_segment(data).map_err(|e| format!("compress_reference_segment failed: {}", e))?;
    let pack = compress_segment_configured(data, level).map_err(|e| format!("compress_segment_configured failed: {}", e))?;
    Ok((comp, marker, pack))
}

pub fn check(case: &BytesCase) -> Report {
    let data = &case.data;
    let w = width_of(data);
    let mut rep = Report::pass(data.len() > w && w > 1 && data.len() % w != 0);
    rep = rep.label(match w {
        4 => "width4",
        3 => "width3",
        2 => "width2",
        _ => "width1",
    });
    if w > 1 {
        rep = rep.label(match data.len() % w {
            0 => "rem0",
            1 => "rem1",
            2 => "rem2",
            _ => "rem3",
        });
    }
    rep = rep.label_if(data.is_empty(), "empty").label_if(data.len() >= 65536, "len>=64k");

    // tuple packing is a bijection and conforms to the layout rule
    let packed = bytes_to_tuples(data);
    let back = tuples_to_bytes(&packed);
    if &back != data {
        return Report::fail(format!("tuples_to_bytes(bytes_to_tuples(x)) != x (len {}, width {}): got len {}", data.len(), w, back.len()));
    }
    if packed.len() != agcref::tuple_packed_len(data) {
        return Report::fail(format!("packed length {} != rule {} (len {}, width {})", packed.len(), agcref::tuple_packed_len(data), data.len(), w));
    }
    let want_marker = if data.is_empty() { 0x10 } else { ((w as u8) << 4) | if w > 1 { (data.len() % w) as u8 } else { 0 } };
    if *packed.last().unwrap() != want_marker {
        return Report::fail(format!("marker byte {:#x} != rule {:#x}", packed.last().unwrap(), want_marker));
    }
    match agcref::tuple_unpack(&packed) {
        Ok(v) if &v == data => {}
        Ok(v) => return Report::fail(format!("independent unpacker disagrees: len {} vs {}", v.len(), data.len())),
        Err(e) => return Report::fail(format!("independent unpacker rejects the packing: {}", e)),
    }
    if !case.zstd {
        return rep;
    }
    // reference path: marker-tagged tuple-packed or plain ZSTD
    let (comp, marker, pack) = match zstd_paths(data, case.level) {
        Ok(x) => x,
        Err(e) => return Report::fail(e),
    };
    rep = rep.label(if marker == 0 { "marker0" } else { "marker1" });
    if marker > 1 {
        return Report::fail(format!("marker {} is neither 0 nor 1", marker));
    }
    match decompress_segment_with_marker(&comp, marker) {
        Ok(v) if &v == data => {}
        Ok(v) => return Report::fail(format!("reference round trip (marker {}) returned {} bytes for {}", marker, v.len(), data.len())),
        Err(e) => return Report::fail(format!("reference round trip (marker {}) failed: {}", marker, e)),
    }
    // conformance of the stored form: ZSTD frame, then the tuple rule for marker 1
    match agcref::zstd_decode(&comp).and_then(|raw| if marker == 1 { agcref::tuple_unpack(&raw) } else { Ok(raw) }) {
        Ok(v) if &v == data => {}
        Ok(_) => return Report::fail(format!("independent decoder disagrees on the reference form (marker {})", marker)),
        Err(e) => return Report::fail(format!("independent decoder rejects the reference form (marker {}): {}", marker, e)),
    }
    // delta-pack path at the configured level, and the fixed-level helper
    match decompress_segment_with_marker(&pack, 0) {
        Ok(v) if &v == data => {}
        Ok(v) => return Report::fail(format!("pack round trip at level {} returned {} bytes for {}", case.level, v.len(), data.len())),
        Err(e) => {
            // an empty input compresses to a non-empty frame; an empty *frame* decodes to empty by contract
            return Report::fail(format!("pack round trip at level {} failed: {}", case.level, e));
        }
    }
    match decompress_segment(&pack) {
        Ok(v) if &v == data => {}
        _ => return Report::fail(format!("decompress_segment disagrees at level {}", case.level)),
    }
    match compress_segment(data).and_then(|c| decompress_segment(&c)) {
        Ok(v) if &v == data => {}
        _ => return Report::fail("compress_segment/decompress_segment round trip failed".to_string()),
    }
    if case.fresh_thread {
        // context reuse: a long-lived thread (this one) and a fresh thread produce identical bytes
        let d2 = data.clone();
        let level = case.level;
        let fresh = std::thread::spawn(move || zstd_paths(&d2, level)).join();
        match fresh {
            Ok(Ok((c2, m2, p2))) => {
                if c2 != comp || m2 != marker || p2 != pack {
                    return Report::fail("compressed bytes differ between a reused and a fresh compression context".to_string());
                }
            }
            _ => return Report::fail("compression on a fresh thread failed".to_string()),
        }
        rep = rep.label("fresh-thread-compared");
    }
    rep
}

#[derive(Clone, Debug)]
enum Shape {
    Uniform { alphabet: u8 },
    Periodic { period: u8, noise_ppm: u32, alphabet: u8 },
    AllSame { sym: u8 },
    AcgtWithN { n_ppm: u32 },
    AnyByte,
}

fn expand(shape: &Shape, len: usize, seed: u64) -> Vec<u8> {
    let mut r = SplitMix::new(seed);
    match *shape {
        Shape::Uniform { alphabet } => (0..len).map(|_| r.below(alphabet as u64) as u8).collect(),
        Shape::Periodic { period, noise_ppm, alphabet } => {
            let unit: Vec<u8> = (0..period).map(|_| r.below(alphabet as u64) as u8).collect();
            (0..len).map(|i| if r.chance(noise_ppm as u64) { r.below(alphabet as u64) as u8 } else { unit[i % period as usize] }).collect()
        }
        Shape::AllSame { sym } => vec![sym; len],
        Shape::AcgtWithN { n_ppm } => (0..len).map(|_| if r.chance(n_ppm as u64) { 4 } else { r.below(4) as u8 }).collect(),
        Shape::AnyByte => (0..len).map(|_| r.below(256) as u8).collect(),
    }
}

/// A history of compression calls made on ONE dedicated thread (so every per-thread context or
/// buffer the library keeps starts fresh and sees exactly this history): an incompressible input
/// of `base` bytes first, then every length in a window below and above it. Incompressible input
/// makes the compressed frame LARGER than the input, so anything sized from the input length (or
/// from an earlier, slightly larger call) instead of the compress bound shows up here.
#[derive(Clone, Debug, Hash, Serialize, Deserialize)]
pub struct SweepCase {
    pub base: usize,
    pub seed: u64,
    pub level: i32,
    /// true: bytes 16..=255 (stored one per byte); false: random ACGT at 4x the length (packs to random bytes)
    pub wide: bool,
    /// lengths visited in decreasing order (larger calls come first) instead of increasing
    pub descending: bool,
}

pub fn check_sweep(case: &SweepCase) -> Report {
    let c = case.clone();
    let res = std::thread::spawn(move || -> Result<(u64, bool), String> {
        let mut r = SplitMix::new(c.seed);
        let hi = c.base + (c.base >> 8) + 80;
        let lo = c.base.saturating_sub(300);
        let mul = if c.wide { 1 } else { 4 };
        let buf: Vec<u8> = (0..hi * mul).map(|_| if c.wide { 16 + r.below(240) as u8 } else { r.below(4) as u8 }).collect();
        let one = |len: usize, reference: bool| -> Result<(), String> {
            let d = buf[..len * mul].to_vec();
            let pack = compress_segment_configured(&d, c.level).map_err(|e| format!("compress_segment_configured({} incompressible bytes, level {}) failed: {}", d.len(), c.level, e))?;
            match decompress_segment_with_marker(&pack, 0) {
                Ok(v) if v == d => {}
                Ok(v) => return Err(format!("pack round trip of {} incompressible bytes returned {} bytes", d.len(), v.len())),
                Err(e) => return Err(format!("pack round trip of {} incompressible bytes failed: {}", d.len(), e)),
            }
            if reference {
                let (comp, marker) = compress_reference_segment(&d).map_err(|e| format!("compress_reference_segment({} incompressible bytes) failed: {}", d.len(), e))?;
                match decompress_segment_with_marker(&comp, marker) {
                    Ok(v) if v == d => {}
                    _ => return Err(format!("reference round trip of {} incompressible bytes (marker {}) differs", d.len(), marker)),
                }
            }
            Ok(())
        };
        let mut calls = 0u64;
        one(c.base, true)?;
        let lens: Vec<usize> = if c.descending { (lo..=hi).rev().collect() } else { (lo..=hi).collect() };
        for (i, len) in lens.into_iter().enumerate() {
            one(len, i % 16 == 0)?;
            calls += 1;
        }
        Ok((calls, hi * mul >= 65536))
    })
    .join();
    match res {
        Ok(Ok((_calls, big))) => Report::pass(true).label(if case.wide { "sweep-wide" } else { "sweep-acgt" }).label_if(big, "len>=64k").label_if(case.descending, "sweep-descending"),
        Ok(Err(e)) => Report::fail(e),
        Err(_) => Report::fail("compression sweep panicked".to_string()),
    }
}

fn sweep_strat() -> impl Strategy<Value = SweepCase> {
    let base = prop_oneof![
        2 => Just(65536usize), 1 => Just(131072usize), 1 => Just(60000usize), 1 => Just(32768usize),
        3 => 1usize..4096, 4 => 4096usize..150_000,
    ];
    let level = prop_oneof![3 => Just(1), 2 => Just(3), 1 => Just(9), 1 => Just(13), 1 => Just(17), 1 => Just(19)];
    (base, any::<u64>(), level, prop::bool::weighted(0.7), any::<bool>()).prop_map(|(base, seed, level, wide, descending)| SweepCase {
        base: if wide { base } else { (base / 4).max(1) },
        seed,
        level,
        wide,
        descending,
    })
}

fn strat(max_len: usize) -> impl Strategy<Value = BytesCase> {
    let alphabet = prop_oneof![4 => Just(4u8), 2 => Just(5u8), 2 => Just(6u8), 1 => Just(7u8), 2 => Just(16u8), 1 => Just(17u8), 1 => Just(31u8)];
    let shape = prop_oneof![
        3 => alphabet.clone().prop_map(|a| Shape::Uniform { alphabet: a }),
        // noise swept through the 0.5 repetitiveness threshold
        4 => (4u8..32, 0u32..700_000, alphabet).prop_map(|(p, n, a)| Shape::Periodic { period: p, noise_ppm: n, alphabet: a }),
        1 => (0u8..17).prop_map(|s| Shape::AllSame { sym: s }),
        2 => (0u32..300_000).prop_map(|n| Shape::AcgtWithN { n_ppm: n }),
        1 => Just(Shape::AnyByte),
    ];
    let len = prop_oneof![
        4 => 0usize..64,
        4 => 64usize..4096,
        2 => 4096usize..max_len.max(4097),
        1 => (65530usize..65545).prop_map(move |x| x.min(max_len)),
    ];
    let level = prop_oneof![Just(13), Just(17), Just(19), 1i32..=19];
    (shape, len, any::<u64>(), level, prop::bool::weighted(0.15)).prop_map(|(s, l, seed, level, fresh)| BytesCase {
        data: expand(&s, l, seed),
        level,
        zstd: true,
        fresh_thread: fresh,
    })
}


/// libFuzzer leg: [level][flags][alphabet mode][bytes...]
pub fn from_fuzz(data: &[u8]) -> BytesCase {
    use crate::fuzzing::Cur;
    let mut c = Cur::new(data);
    let level = 1 + (c.u8() % 19) as i32;
    let flags = c.u8();
    let mode = c.u8() % 8;
    let body = c.rest();
    let data: Vec<u8> = body
        .iter()
        .map(|&b| match mode {
            0 => b & 3,
            1 => b % 5,
            2 => b % 6,
            3 => b % 7,
            4 => b % 16,
            5 => b % 17,
            6 => if b < 250 { b & 3 } else { b },
            _ => b,
        })
        .collect();
    BytesCase { data, level, zstd: flags & 3 != 3, fresh_thread: flags & 0xfc == 0xfc }
}

pub fn fuzz_seeds() -> Vec<Vec<u8>> {
    let mut r = SplitMix::new(0xC12);
    let mut out = Vec::new();
    for (mode, n) in [(0u8, 257usize), (1, 100), (2, 64), (4, 33), (7, 50), (0, 3)] {
        let mut v = vec![16u8, 0, mode];
        v.extend((0..n).map(|i| if mode == 0 && i % 3 != 0 { (i % 7) as u8 } else { r.next() as u8 }));
        out.push(v);
    }
    out
}

fn all_strings(alphabet: &'static [u8], max_len: usize, zstd_every: u64) -> impl Iterator<Item = BytesCase> {
    let a = alphabet.len() as u64;
    (0..=max_len).flat_map(move |len| {
        let total = a.pow(len as u32);
        (0..total).map(move |idx0| {
            let mut idx = idx0;
            let mut data = Vec::with_capacity(len);
            for _ in 0..len {
                data.push(alphabet[(idx % a) as usize]);
                idx /= a;
            }
            BytesCase { data, level: 17, zstd: idx0 % zstd_every == 0, fresh_thread: false }
        })
    })
}

/// every length 0..=40 with the maximum symbol exactly at a width boundary, at every position
fn boundary_strings() -> impl Iterator<Item = BytesCase> {
    let maxes: &'static [u8] = &[3, 4, 5, 6, 15, 16];
    maxes.iter().flat_map(|&m| {
        (0usize..=40).flat_map(move |len| {
            (0..len.max(1)).map(move |at| {
                let mut data = vec![0u8; len];
                if len > 0 {
                    data[at] = m;
                    // a second, smaller symbol so that tuples are not all zero
                    data[(at * 7 + 3) % len] = data[(at * 7 + 3) % len].max(m.min(2));
                }
                BytesCase { data, level: 19, zstd: true, fresh_thread: false }
            })
        })
    })
}

pub fn run(ctx: &Ctx, stats: &mut Stats) {
    run_exhaustive(ctx, stats, "exh-acgt<=8", all_strings(&[0, 1, 2, 3], 8, 16), &check);
    run_exhaustive(ctx, stats, "exh-0..5<=6", all_strings(&[0, 1, 2, 3, 4, 5], 6, 16), &check);
    run_exhaustive(ctx, stats, "exh-0..15<=4", all_strings(&[0, 1, 2, 3, 4, 5, 6, 7, 8, 9, 10, 11, 12, 13, 14, 15], 4, 16), &check);
    run_exhaustive(ctx, stats, "exh-0,255<=8", all_strings(&[0, 255], 8, 1), &check);
    run_exhaustive(ctx, stats, "exh-boundaries", boundary_strings(), &check);
    let n = ctx.tier.pick(24_000, 400_000);
    run_prop(ctx, stats, "random", n, strat(100_000), &check);
    run_prop(ctx, stats, "sweep-incompressible", ctx.tier.pick(64, 1_500), sweep_strat(), &check_sweep);
    if ctx.tier == Tier::Thorough || std::env::var("VERIF_FUZZ").is_ok() {
        crate::fuzzing::run_stage(ctx, stats, "pack", ctx.tier.pick(200_000, 3_000_000));
    }
}

pub fn replay(_ctx: &Ctx, stage: &str, case: &Value) -> Report {
    if stage == "sweep-incompressible" {
        return match from_case::<SweepCase>(case) {
            Ok(c) => check_sweep(&c),
            Err(e) => Report::fail(e),
        };
    }
    match from_case::<BytesCase>(case) {
        Ok(c) => check(&c),
        Err(e) => Report::fail(e),
    }
}

pub const INFO: PropInfo = PropInfo {
    id: "C12",
    level: "exploration",
    rule: "cases = byte strings; exhaustive: all strings of length <=8 over {0..3}, <=6 over {0..5}, <=4 over {0..15}, <=8 over {0,255}, and every length 0..40 with the maximum symbol at each width boundary 3/4, 5/6, 15/16 (tuple bijection on all, ZSTD paths on every 16th); random: 0..100 kB strings (uniform over alphabets 4/5/6/7/16/17/31, periodic with period 4..31 and noise 0..70% to land on both sides of the 0.5 repetitiveness threshold, ACGT+N, constant, arbitrary bytes) at levels 13/17/19/1..19; sweep-incompressible: per case one dedicated thread compresses an incompressible input (bytes 16..255, or random ACGT that packs to random bytes) of a base length (64 KiB, 128 KiB, 60000, 32 KiB or random 1..150000) and then every length from base-300 to base+base/256+80, ascending or descending, round-tripping each as a delta pack and every 16th as a reference segment. Oracles: inverse functions, the packed-length / marker rule, an independent unpacker, ZSTD via the zstd crate, fresh-thread vs reused-context byte equality. Non-trivial = packed width > 1, length > width and length not divisible by the width; distinct = distinct (bytes, level).",
    assumptions: &["the zstd crate's decoder is the reference for ZSTD frames"],
    needs_cli: false,
    needs_checked: false,
    max_shards: 16,
    shrink_iters: 300,
    watchdog_s: (900, 10800),
    run,
    replay,
};
