//! C08 — reader answers do not depend on query history or on other readers.

use crate::archive_case::*;
use crate::engine::*;
use crate::gen::{self, Collection, GenCfg};
use crate::pipeline;
use crate::util::{scale, stable_hash, SplitMix};
use proptest::prelude::*;
use ragc_core::{Decompressor, DecompressorConfig};
use serde::{Deserialize, Serialize};
use serde_json::Value;
use std::collections::BTreeMap;

/// argument selectors: 0/1 = existing (first / other), 2 = unknown
#[derive(Clone, Debug, Hash, PartialEq, Eq, PartialOrd, Ord, Serialize, Deserialize)]
pub enum Op {
    ListSamples,
    ListContigs(u8),
    GetSample(u8),
    GetContig(u8, u8),
    Range(u8, u8, u16, u16),
    Length(u8, u8),
    SegDesc(u8, u8),
    AllSegments,
    GroupStats,
    RefSegment(u8),
    PrefixList(u8),
    PrefixGet(u8),
    /// direct indices (sample, contig), taken modulo the archive's counts
    ContigAt(u16, u16),
    RangeAt(u16, u16, u32, u32),
    LengthAt(u16, u16),
}

#[derive(Clone, Debug, Hash, Serialize, Deserialize)]
pub struct HistCase {
    pub collection: Collection,
    /// random sequences (one per handle); handle 0 also runs the enumerated short sequences
    pub sequences: Vec<Vec<Op>>,
    pub concurrent: bool,
}

/// Result of an operation reduced to something comparable: Ok(hash of the value) or Err.
#[derive(Clone, Debug, PartialEq, Eq)]
pub enum Res {
    Ok(u64),
    Err,
    Panic(String),
}

struct Names {
    samples: Vec<String>,
    contigs: Vec<Vec<String>>,
    groups: Vec<u32>,
    raw_groups: Vec<u32>,
}

fn sample_arg(n: &Names, sel: u8) -> (String, Option<usize>) {
    match sel % 3 {
        0 => (n.samples[0].clone(), Some(0)),
        1 => {
            let i = n.samples.len() - 1;
            (n.samples[i].clone(), Some(i))
        }
        _ => ("no-such-sample".to_string(), None),
    }
}

fn contig_arg(n: &Names, s: Option<usize>, sel: u8) -> String {
    match (s, sel % 3) {
        (Some(i), 0) => n.contigs[i][0].clone(),
        (Some(i), 1) => n.contigs[i][n.contigs[i].len() - 1].clone(),
        _ => "no-such-contig".to_string(),
    }
}

pub fn apply(d: &mut Decompressor, n: &Names, op: &Op) -> Res {
    let r = guarded(|| -> Result<u64, ()> {
        Ok(match op {
            Op::ListSamples => stable_hash(&d.list_samples()),
            Op::ListContigs(s) => stable_hash(&d.list_contigs(&sample_arg(n, *s).0).map_err(|_| ())?),
            Op::GetSample(s) => stable_hash(&d.get_sample(&sample_arg(n, *s).0).map_err(|_| ())?),
            Op::GetContig(s, c) => {
                let (sn, si) = sample_arg(n, *s);
                stable_hash(&d.get_contig(&sn, &contig_arg(n, si, *c)).map_err(|_| ())?)
            }
            Op::Range(s, c, a, b) => {
                let (sn, si) = sample_arg(n, *s);
                stable_hash(&d.get_contig_range(&sn, &contig_arg(n, si, *c), *a as usize, *b as usize).map_err(|_| ())?)
            }
            Op::Length(s, c) => {
                let (sn, si) = sample_arg(n, *s);
                stable_hash(&d.get_contig_length(&sn, &contig_arg(n, si, *c)).map_err(|_| ())?)
            }
            Op::SegDesc(s, c) => {
                let (sn, si) = sample_arg(n, *s);
                let v = d.get_contig_segments_desc(&sn, &contig_arg(n, si, *c)).map_err(|_| ())?;
                stable_hash(&v.iter().map(|x| (x.group_id, x.in_group_id, x.is_rev_comp, x.raw_length)).collect::<Vec<_>>())
            }
            Op::AllSegments => {
                let v = d.get_all_segments().map_err(|_| ())?;
                stable_hash(&v.iter().map(|(s, c, ds)| (s.clone(), c.clone(), ds.iter().map(|x| (x.group_id, x.in_group_id, x.is_rev_comp, x.raw_length)).collect::<Vec<_>>())).collect::<Vec<_>>())
            }
            Op::GroupStats => stable_hash(&d.get_group_statistics().map_err(|_| ())?),
            Op::RefSegment(g) => {
                let gid = match g % 4 {
                    0 => n.groups.first().copied().unwrap_or(16),
                    1 => n.groups.last().copied().unwrap_or(17),
                    2 => 4_000_000,
                    // a raw group (0-15) that holds segments, if any: it has no reference segment
                    _ => n.raw_groups.first().copied().unwrap_or(0),
                };
                stable_hash(&d.get_reference_segment(gid).map_err(|_| ())?)
            }
            Op::ContigAt(si, ci) => {
                let si = *si as usize % n.samples.len();
                let cn = &n.contigs[si][*ci as usize % n.contigs[si].len()];
                stable_hash(&d.get_contig(&n.samples[si], cn).map_err(|_| ())?)
            }
            Op::RangeAt(si, ci, a, b) => {
                let si = *si as usize % n.samples.len();
                let cn = &n.contigs[si][*ci as usize % n.contigs[si].len()];
                stable_hash(&d.get_contig_range(&n.samples[si], cn, *a as usize, *b as usize).map_err(|_| ())?)
            }
            Op::LengthAt(si, ci) => {
                let si = *si as usize % n.samples.len();
                let cn = &n.contigs[si][*ci as usize % n.contigs[si].len()];
                stable_hash(&d.get_contig_length(&n.samples[si], cn).map_err(|_| ())?)
            }
            Op::PrefixList(p) => {
                let pre = match p % 3 {
                    0 => n.samples[0][..1].to_string(),
                    1 => n.samples[n.samples.len() - 1].clone(),
                    _ => "zzz-no-such".to_string(),
                };
                stable_hash(&d.list_samples_with_prefix(&pre))
            }
            Op::PrefixGet(p) => {
                let pre = match p % 3 {
                    0 => n.samples[0][..1].to_string(),
                    1 => n.samples[n.samples.len() - 1].clone(),
                    _ => "zzz-no-such".to_string(),
                };
                let m = d.get_samples_by_prefix(&pre).map_err(|_| ())?;
                let sorted: BTreeMap<_, _> = m.into_iter().collect();
                stable_hash(&sorted)
            }
        })
    });
    match r {
        Ok(Ok(h)) => Res::Ok(h),
        Ok(Err(())) => Res::Err,
        Err(p) => Res::Panic(p),
    }
}

fn is_failing_arg(op: &Op) -> bool {
    match op {
        Op::ListContigs(s) | Op::GetSample(s) => s % 3 == 2,
        Op::GetContig(s, c) | Op::Length(s, c) | Op::SegDesc(s, c) | Op::Range(s, c, _, _) => s % 3 == 2 || c % 3 == 2,
        Op::RefSegment(g) => g % 4 >= 2,
        _ => false,
    }
}

fn whole_table(op: &Op) -> bool {
    matches!(op, Op::AllSegments | Op::GroupStats)
}

pub fn reduced_alphabet() -> Vec<Op> {
    vec![
        Op::ListSamples,
        Op::ListContigs(0),
        Op::ListContigs(2),
        Op::GetSample(0),
        Op::GetSample(1),
        Op::GetSample(2),
        Op::GetContig(0, 0),
        Op::GetContig(1, 1),
        Op::GetContig(0, 2),
        Op::GetContig(2, 0),
        Op::Range(1, 0, 3, 40),
        Op::Length(0, 1),
        Op::Length(2, 2),
        Op::SegDesc(1, 0),
        Op::AllSegments,
        Op::GroupStats,
        Op::RefSegment(0),
        Op::RefSegment(1),
        Op::RefSegment(2),
        Op::RefSegment(3),
        Op::PrefixGet(0),
    ]
}

const F_RELOAD: &str = "C08-metadata-reload-panic";
const F_REFSEG: &str = "C08-reference-segment-history";

pub fn check_in(ctx: &Ctx, case: &HistCase, counters: &std::cell::Cell<(u64, u64)>) -> Report {
    let c = &case.collection;
    let e = match examine(ctx, c, "c08") {
        Outcome::Ready(e) => e,
        Outcome::NotCreated(r) => return r,
    };
    let mut rep = Report::pass(false);
    rep.labels = e.labels.clone();
    let path = e.built.archive.to_string_lossy().to_string();
    let open = || Decompressor::open(&path, DecompressorConfig { verbosity: 0 });
    let names = {
        let mut groups: Vec<u32> = Vec::new();
        let mut raw_groups: Vec<u32> = Vec::new();
        if let Ok(f) = &e.facts {
            for s in &f.contigs {
                for (_, ds, _) in s {
                    for d in ds {
                        if d.group >= 16 {
                            groups.push(d.group);
                        } else {
                            raw_groups.push(d.group);
                        }
                    }
                }
            }
        }
        groups.sort_unstable();
        groups.dedup();
        raw_groups.sort_unstable();
        raw_groups.dedup();
        Names { samples: c.samples.iter().map(|s| s.name.clone()).collect(), contigs: c.samples.iter().map(|s| s.contigs.iter().map(|r| r.header.clone()).collect()).collect(), groups, raw_groups }
    };
    // fresh-handle table, memoised per operation
    let mut fresh: BTreeMap<Op, Res> = BTreeMap::new();
    let mut fresh_of = |op: &Op| -> Result<Res, String> {
        if let Some(r) = fresh.get(op) {
            return Ok(r.clone());
        }
        let mut d = open().map_err(|err| format!("open failed: {:#}", err))?;
        let r = apply(&mut d, &names, op);
        fresh.insert(op.clone(), r.clone());
        Ok(r)
    };
    let n_seq = std::cell::Cell::new(0u64);
    let n_ops = std::cell::Cell::new(0u64);
    let known: std::cell::RefCell<Option<(String, String)>> = std::cell::RefCell::new(None);
    let run_sequence = |seq: &[Op], fresh_of: &mut dyn FnMut(&Op) -> Result<Res, String>, rep: &mut Report| -> Option<String> {
        let mut d = match open() {
            Ok(d) => d,
            Err(err) => return Some(format!("open failed: {:#}", err)),
        };
        n_seq.set(n_seq.get() + 1);
        for (i, op) in seq.iter().enumerate() {
            n_ops.set(n_ops.get() + 1);
            let want = match fresh_of(op) {
                Ok(w) => w,
                Err(m) => return Some(m),
            };
            let got = apply(&mut d, &names, op);
            if let Res::Panic(p) = &want {
                return Some(format!("{:?} panics on a fresh handle: {}", op, p));
            }
            if got != want {
                let describe = |r: &Res| match r {
                    Res::Ok(_) => "a value".to_string(),
                    Res::Err => "an error".to_string(),
                    Res::Panic(p) => format!("a panic ({})", p),
                };
                let msg = format!("after {:?}, {:?} gives {} but a fresh handle gives {}", &seq[..i], op, describe(&got), if got != want && matches!((&got, &want), (Res::Ok(_), Res::Ok(_))) { "a different value".to_string() } else { describe(&want) });
                // known findings (exact signatures)
                if let Res::Panic(p) = &got {
                    if p.contains("collection.rs") && p.contains("index out of bounds") && ctx.known.is_open(F_RELOAD) {
                        *known.borrow_mut() = Some((F_RELOAD.into(), ctx.known.what(F_RELOAD)));
                        return None;
                    }
                }
                if matches!(op, Op::RefSegment(_)) && ctx.known.is_open(F_REFSEG) {
                    *known.borrow_mut() = Some((F_REFSEG.into(), ctx.known.what(F_REFSEG)));
                    return None;
                }
                return Some(msg);
            }
            if i > 0 && is_failing_arg(&seq[i - 1]) && !is_failing_arg(op) {
                rep.labels.push("ok-after-failed-op");
            }
            if i > 0 && !is_failing_arg(&seq[i - 1]) && is_failing_arg(op) {
                rep.labels.push("miss-after-hit");
            }
            if i > 0 && whole_table(op) && !whole_table(&seq[i - 1]) {
                rep.labels.push("whole-table-after-per-sample");
            }
        }
        None
    };
    // (1) every sequence up to length 2 over the reduced alphabet, length 3 over its first half
    let alpha = reduced_alphabet();
    let mut enumerated: Vec<Vec<Op>> = Vec::new();
    for a in &alpha {
        enumerated.push(vec![a.clone()]);
        for b in &alpha {
            enumerated.push(vec![a.clone(), b.clone()]);
        }
    }
    let sub: Vec<&Op> = alpha.iter().enumerate().filter(|(i, _)| [1usize, 2, 3, 5, 8, 9, 14, 15, 16, 18].contains(i)).map(|(_, o)| o).collect();
    for a in &sub {
        for b in &sub {
            for c3 in &sub {
                enumerated.push(vec![(*a).clone(), (*b).clone(), (*c3).clone()]);
            }
        }
    }
    // (1b) structure-aware sequences: pairs of segment occurrences that share a stored entry
    // (same group and in-group id - preferably in opposite orientations), the same group with
    // another id, or the same id in another group, queried back to back on one handle. A cache
    // keyed by too little (orientation, group or id left out) answers the second query from the first.
    let targeted = e.facts.as_ref().map(|f| targeted_sequences(f)).unwrap_or_default();
    if targeted.1 {
        rep.labels.push("targeted:shared-entry-opposite-orientation");
    }
    if !targeted.0.is_empty() {
        rep.labels.push("targeted:shared-entry-pairs");
    }
    for seq in enumerated.iter().chain(targeted.0.iter()).chain(case.sequences.iter()) {
        if let Some(m) = run_sequence(seq, &mut fresh_of, &mut rep) {
            return Report { verdict: Verdict::Fail(m), ..rep };
        }
        if known.borrow().is_some() {
            break;
        }
    }
    rep.labels.push("enumerated<=3");
    // (2) cloned handles on concurrent threads
    if case.concurrent && known.borrow().is_none() && case.sequences.len() >= 2 {
        let base = match open() {
            Ok(d) => d,
            Err(err) => return Report { verdict: Verdict::Fail(format!("open failed: {:#}", err)), ..rep },
        };
        // expected values first (single threaded)
        let mut expected: Vec<Vec<Res>> = Vec::new();
        for seq in &case.sequences {
            let mut v = Vec::new();
            for op in seq {
                match fresh_of(op) {
                    Ok(r) => v.push(r),
                    Err(m) => return Report { verdict: Verdict::Fail(m), ..rep },
                }
            }
            expected.push(v);
        }
        let mut handles = Vec::new();
        for seq in &case.sequences {
            match base.clone_for_thread() {
                Ok(h) => handles.push((h, seq.clone())),
                Err(err) => return Report { verdict: Verdict::Fail(format!("clone_for_thread failed: {:#}", err)), ..rep },
            }
        }
        let names_ref = &names;
        let results: Vec<Vec<Res>> = std::thread::scope(|sc| {
            let joins: Vec<_> = handles
                .into_iter()
                .map(|(mut h, seq)| sc.spawn(move || seq.iter().map(|op| apply(&mut h, names_ref, op)).collect::<Vec<Res>>()))
                .collect();
            joins.into_iter().map(|j| j.join().unwrap_or_default()).collect()
        });
        for (ti, (got, want)) in results.iter().zip(expected.iter()).enumerate() {
            // history dependence inside one handle is judged above; here only cross-handle interference:
            // re-run the same sequence alone and compare
            let mut alone = match open() {
                Ok(d) => d,
                Err(err) => return Report { verdict: Verdict::Fail(format!("open failed: {:#}", err)), ..rep },
            };
            let solo: Vec<Res> = case.sequences[ti].iter().map(|op| apply(&mut alone, &names, op)).collect();
            if got != &solo {
                let at = got.iter().zip(solo.iter()).position(|(a, b)| a != b).unwrap_or(0);
                return Report { verdict: Verdict::Fail(format!("cloned handle {} of {} running concurrently: operation {} ({:?}) differs from the same sequence run alone", ti, results.len(), at, case.sequences[ti].get(at))), ..rep };
            }
            let _ = want;
        }
        rep.labels.push("concurrent-clones");
    }
    let (a, b) = counters.get();
    counters.set((a + n_seq.get(), b + n_ops.get()));
    if let Some((id, what)) = known.into_inner() {
        rep.verdict = Verdict::Known { id, what };
    }
    rep.nontrivial = rep.labels.contains(&"miss-after-hit") || rep.labels.contains(&"whole-table-after-per-sample") || rep.labels.contains(&"ok-after-failed-op");
    rep.labels.sort();
    rep.labels.dedup();
    rep
}

/// (sequences, an opposite-orientation pair exists)
fn targeted_sequences(f: &crate::agcref::ArchiveFacts) -> (Vec<Vec<Op>>, bool) {
    #[derive(Clone, Copy)]
    struct Occ {
        s: usize,
        c: usize,
        start: usize,
        end: usize,
        group: u32,
        id: u32,
        rc: bool,
    }
    let k = f.k as usize;
    let mut occ: Vec<Occ> = Vec::new();
    for (si, s) in f.contigs.iter().enumerate().take(130) {
        for (ci, (_, descs, _)) in s.iter().enumerate().take(8) {
            let mut pos = 0usize;
            for (i, d) in descs.iter().enumerate() {
                let contributes = if i == 0 { d.raw_len as usize } else { (d.raw_len as usize).saturating_sub(k) };
                let (start, end) = (pos, pos + contributes);
                pos = end;
                if end > start {
                    occ.push(Occ { s: si, c: ci, start, end, group: d.group, id: d.in_group, rc: d.rc });
                }
            }
        }
    }
    let mut pairs: Vec<(Occ, Occ, u8)> = Vec::new();
    // priority 0: same entry, opposite orientation; 1: same entry; 2: same group, other id; 3: same id, other group
    for (i, a) in occ.iter().enumerate() {
        for b in occ.iter().skip(i + 1) {
            if a.s == b.s && a.c == b.c && a.start == b.start {
                continue;
            }
            // a raw-group pack and an LZ group whose ids coincide under (pack << 4 | raw group) style keys
            let cross = |x: &Occ, y: &Occ| x.group < 16 && y.group >= 16 && y.group == 16 * (x.id / 50) + x.group;
            let pr = if cross(a, b) || cross(b, a) {
                0
            } else if a.group == b.group && a.id == b.id {
                if a.rc != b.rc {
                    0
                } else {
                    1
                }
            } else if a.group == b.group {
                2
            } else if a.id == b.id && a.group >= 16 && b.group >= 16 {
                3
            } else {
                continue;
            };
            pairs.push((*a, *b, pr));
            if pairs.len() > 4000 {
                break;
            }
        }
        if pairs.len() > 4000 {
            break;
        }
    }
    let opposite = pairs.iter().any(|p| p.2 == 0);
    let mut chosen: Vec<(Occ, Occ, u8)> = Vec::new();
    for pr in 0..4u8 {
        let quota = [16usize, 8, 8, 6][pr as usize];
        chosen.extend(pairs.iter().filter(|p| p.2 == pr).take(quota).copied());
    }
    let win = |o: &Occ, shift: usize| -> (u32, u32) {
        let len = o.end - o.start;
        let a = o.start + (shift % len.max(1)).min(len.saturating_sub(1));
        let b = (a + 1 + len / 2).min(o.end);
        (a as u32, b as u32)
    };
    let mut seqs: Vec<Vec<Op>> = Vec::new();
    for (j, (a, b, _)) in chosen.iter().enumerate() {
        let (a0, a1) = win(a, j);
        let (b0, b1) = win(b, j * 3);
        let ra = Op::RangeAt(a.s as u16, a.c as u16, a0, a1);
        let rb = Op::RangeAt(b.s as u16, b.c as u16, b0, b1);
        let ca = Op::ContigAt(a.s as u16, a.c as u16);
        let cb = Op::ContigAt(b.s as u16, b.c as u16);
        seqs.push(vec![ra.clone(), rb.clone(), ra.clone()]);
        seqs.push(vec![rb.clone(), ra.clone()]);
        seqs.push(vec![ca.clone(), rb.clone(), cb.clone()]);
        seqs.push(vec![rb.clone(), ca.clone(), Op::LengthAt(b.s as u16, b.c as u16)]);
        seqs.push(vec![cb, ra, ca, rb]);
    }
    (seqs, opposite)
}

fn op_strategy() -> impl Strategy<Value = Op> {
    prop_oneof![
        1 => Just(Op::ListSamples),
        2 => (0u8..3).prop_map(Op::ListContigs),
        3 => (0u8..3).prop_map(Op::GetSample),
        3 => (0u8..3, 0u8..3).prop_map(|(s, c)| Op::GetContig(s, c)),
        3 => (0u8..3, 0u8..3, 0u16..3000, 0u16..3000).prop_map(|(s, c, a, b)| Op::Range(s, c, a, b)),
        2 => (0u8..3, 0u8..3).prop_map(|(s, c)| Op::Length(s, c)),
        1 => (0u8..3, 0u8..3).prop_map(|(s, c)| Op::SegDesc(s, c)),
        2 => Just(Op::AllSegments),
        1 => Just(Op::GroupStats),
        2 => (0u8..4).prop_map(Op::RefSegment),
        1 => (0u8..3).prop_map(Op::PrefixList),
        1 => (0u8..3).prop_map(Op::PrefixGet),
        2 => (any::<u16>(), any::<u16>()).prop_map(|(s, c)| Op::ContigAt(s, c)),
        3 => (any::<u16>(), any::<u16>(), 0u32..3000, 0u32..3000).prop_map(|(s, c, a, b)| Op::RangeAt(s, c, a, b)),
        1 => (any::<u16>(), any::<u16>()).prop_map(|(s, c)| Op::LengthAt(s, c)),
    ]
}

fn strat(many_pct: u32) -> impl Strategy<Value = HistCase> {
    let cfg = GenCfg { max_contig: 1500, max_samples: 4, many_samples_pct: many_pct, single_file: None, vary_presentation: false, swarm_pct: 6 };
    (gen::collection_strategy(cfg), prop::collection::vec(prop::collection::vec(op_strategy(), 4..13), 2..9), any::<bool>())
        .prop_map(|(collection, sequences, concurrent)| HistCase { collection, sequences, concurrent })
}

pub fn run(ctx: &Ctx, stats: &mut Stats) {
    let c2 = ctx.clone();
    let counters = std::cell::Cell::new((0u64, 0u64));
    let n = ctx.tier.pick(96, 1600);
    {
        let check = |c: &HistCase| check_in(&c2, c, &counters);
        run_prop(ctx, stats, "histories", n, strat(25), &check);
    }
    stats.add_extra_count("operation_sequences", counters.get().0);
    stats.add_extra_count("operations", counters.get().1);
    let _ = (scale(0, 1), SplitMix::new(0), pipeline::CREATE_TIMEOUT);
}

pub fn replay(ctx: &Ctx, _stage: &str, case: &Value) -> Report {
    let counters = std::cell::Cell::new((0u64, 0u64));
    match from_case::<HistCase>(case) {
        Ok(c) => check_in(ctx, &c, &counters),
        Err(e) => Report::fail(e),
    }
}

pub const INFO: PropInfo = PropInfo {
    id: "C08",
    level: "exploration",
    rule: "cases = (archive from a small generated collection, a quarter of them with > 50 samples i.e. two metadata batches; 2..8 random operation sequences of length 4..12). On every archive ALL sequences of length 1 and 2 over a 21-operation alphabet {list_samples, list_contigs, get_sample, get_contig, get_contig_range, get_contig_length, get_contig_segments_desc, get_all_segments, get_group_statistics, get_reference_segment, get_samples_by_prefix} x {existing, other existing, unknown} arguments and all sequences of length 3 over 10 of them are run on a new handle each (1462 sequences); then structure-aware sequences built from the archive's own descriptor table (read by the independent decoder): up to 38 pairs of segment occurrences that share a stored entry (same group and in-group id, opposite orientations first), the same group with another id, or the same id in another group, whose ranges / whole contigs are queried back to back on one handle (5 sequences per pair); then the random ones (which also address any sample / contig by index); for half of the cases the random sequences also run concurrently on handles cloned with clone_for_thread. Oracle: every operation's outcome (value hash, or 'is an error') equals the outcome of the same operation on a fresh handle; a panic anywhere is a violation; a concurrently running clone must behave exactly as the same sequence run alone. Non-trivial = the case contains a miss after a hit, a success after a failed operation, or a whole-table query after a per-sample query; distinct = distinct case. Counts of sequences and operations are reported as operation_sequences / operations.",
    assumptions: &["error values are compared as 'is an error', not by message"],
    needs_cli: true,
    needs_checked: false,
    max_shards: 16,
    shrink_iters: 30,
    watchdog_s: (1800, 14400),
    run,
    replay,
};
