//! C02 — archives conform to the AGC v3 format: an independent decoder agrees.

use crate::archive_case::*;
use crate::engine::*;
use crate::fasta::{self, Expected};
use crate::gen::{self, Collection, GenCfg};
use crate::pipeline;
use crate::util::codes_to_letters;
use serde_json::Value;

pub fn check_in(ctx: &Ctx, c: &Collection) -> Report {
    let e = match examine(ctx, c, "c02") {
        Outcome::Ready(e) => e,
        Outcome::NotCreated(r) => return r,
    };
    let mut rep = Report::pass(e.labels.contains(&"lz-delta") && (e.labels.contains(&"ref-marker0") || e.labels.contains(&"ref-marker1")));
    rep.labels = e.labels.clone();
    let f = match &e.facts {
        Ok(f) => f,
        Err(err) => return Report { verdict: Verdict::Fail(format!("independent AGC v3 decoder rejects the archive: {}", err)), ..rep },
    };
    let p = &c.params;
    if (f.k, f.min_match, f.pack_cardinality, f.segment_size) != (p.k, p.min_match, 50, p.segment_size) {
        return Report { verdict: Verdict::Fail(format!("params stream holds (k {}, min match {}, pack {}, segment {}), created with (k {}, min match {}, 50, segment {})", f.k, f.min_match, f.pack_cardinality, f.segment_size, p.k, p.min_match, p.segment_size)), ..rep };
    }
    let view: Expected = f.samples.iter().cloned().zip(f.contigs.iter().map(|s| s.iter().map(|(n, _, b)| (n.clone(), codes_to_letters(b))).collect())).collect();
    if let Some(d) = fasta::first_difference(&e.expected, &view) {
        return Report { verdict: Verdict::Fail(format!("independent decoder recovers something else than the input (input vs decoder): {}", d)), ..rep };
    }
    match guarded(|| pipeline::read_all(&e.built.archive)) {
        Ok(Ok(g)) => {
            if let Some(d) = fasta::first_difference(&g, &view) {
                return Report { verdict: Verdict::Fail(format!("independent decoder and ragc's reader disagree (ragc vs decoder): {}", d)), ..rep };
            }
        }
        Ok(Err(err)) => return Report { verdict: Verdict::Fail(format!("ragc's reader fails on an archive the independent decoder reads: {}", err)), ..rep },
        Err(pn) => return Report { verdict: Verdict::Fail(format!("ragc's reader panics on an archive the independent decoder reads: {}", pn)), ..rep },
    }
    rep
}

pub fn run(ctx: &Ctx, stats: &mut Stats) {
    let c2 = ctx.clone();
    let check = move |c: &Collection| check_in(&c2, c);
    let n = ctx.tier.pick(560, 12000);
    run_prop(ctx, stats, "collections", n, gen::collection_strategy(GenCfg::standard()), &check);
    let n2 = ctx.tier.pick(48, 600);
    let cfg = GenCfg { max_contig: 2200, max_samples: 3, many_samples_pct: 100, single_file: None, vary_presentation: false, swarm_pct: 0 };
    run_prop(ctx, stats, "many-samples", n2, gen::collection_strategy(cfg), &check);
}

pub fn replay(ctx: &Ctx, _stage: &str, case: &Value) -> Report {
    match from_case::<Collection>(case) {
        Ok(c) => check_in(ctx, &c),
        Err(e) => Report::fail(e),
    }
}

pub const INFO: PropInfo = PropInfo {
    id: "C02",
    level: "exploration",
    rule: "cases = the C01 collection space (own batch, own seed). Every archive written by `ragc create` is parsed by an independent AGC v3 reader (vlib/src/agcref.rs: footer + directory, length-prefixed big-endian integers, params, file_type_info 3.0, collection-samples/-contigs/-details with prefix-coded integers, name delta coding and the in-group-id predictor, x<base64>r / x<base64>d naming, 0xFF-terminated pack entries, raw groups 0-15 with the 0x7f placeholder, metadata 0 = stored raw else marker byte 0/1 + ZSTD (+ tuple unpacking) with metadata = unpacked size, LZ-diff V2 text). Oracle: it recovers every sample identically to the input and to ragc's own reader, params = (k, min match, 50, segment size), exactly one reference part per LZ group and none for raw groups, delta id i>=1 = entry (i-1) mod 50 of pack (i-1) div 50, raw id i = entry i mod 50 of pack i div 50, descriptor raw length = decoded length. Non-trivial = archive with an LZ delta and a ZSTD-compressed reference (marker 0 or 1); distinct = distinct collection.",
    assumptions: &["the independent reader is my reading of the AGC v3 rules; no C++ AGC binary exists in the sandbox to cross-check it", "same input preconditions as C01"],
    needs_cli: true,
    needs_checked: false,
    max_shards: 16,
    shrink_iters: 40,
    watchdog_s: (1800, 14400),
    run,
    replay,
};
