//! C09 — LZ-diff decoding inverts encoding for every reference/target pair.

use crate::agcref;
use crate::engine::*;
use crate::util::{scale, SplitMix};
use proptest::prelude::*;
use ragc_core::LZDiff;
use serde::{Deserialize, Serialize};
use serde_json::Value;

#[derive(Clone, Debug, Hash, Serialize, Deserialize)]
pub struct LzCase {
    pub reference: Vec<u8>,
    pub target: Vec<u8>,
    pub min_match: u8,
}

pub const F_CODE30: &str = "C09-code30-literal";

pub fn classify(enc: &[u8]) -> (bool, bool, bool, bool, bool) {
    // (match, literal, bang, elided, nrun)
    let mut m = false;
    let mut l = false;
    let mut b = false;
    let mut e = false;
    let mut n = false;
    let mut i = 0;
    while i < enc.len() {
        let c = enc[i];
        if c == b'!' {
            b = true;
            i += 1;
        } else if c >= b'A' && c < 0x80 {
            l = true;
            i += 1;
        } else if c == 30 {
            n = true;
            i += 1;
            while i < enc.len() && enc[i] != 4 {
                i += 1;
            }
            i += 1;
        } else {
            m = true;
            let mut comma = false;
            while i < enc.len() && enc[i] != b'.' {
                if enc[i] == b',' {
                    comma = true;
                }
                i += 1;
            }
            if !comma {
                e = true;
            }
            i += 1;
        }
    }
    (m, l, b, e, n)
}

pub fn check_with(ctx_known_code30: bool, case: &LzCase) -> Report {
    if case.target.is_empty() {
        return Report::pass(false).label("empty-target(skipped)");
    }
    let mm = case.min_match as u32;
    let has30 = case.target.contains(&30);
    let res = guarded(|| {
        let mut lz = LZDiff::new(mm);
        lz.prepare(&case.reference);
        let enc = lz.encode(&case.target);
        let dec = if enc.is_empty() { case.reference.clone() } else { lz.decode(&enc) };
        (enc, dec)
    });
    let (enc, dec) = match res {
        Ok(x) => x,
        Err(p) => {
            if has30 && ctx_known_code30 {
                return Report { labels: vec!["code30"], nontrivial: true, verdict: Verdict::Known { id: F_CODE30.into(), what: "a target containing the unknown-letter code 30 cannot be decoded (literal 'A'+30 is not recognised)".into() } };
            }
            return Report::fail(format!("panic during encode/decode: {}", p));
        }
    };
    let (m, l, b, e, n) = classify(&enc);
    let mut rep = Report::pass(m && l)
        .label_if(m, "match")
        .label_if(l, "literal")
        .label_if(b, "bang")
        .label_if(e, "elided-length")
        .label_if(n, "nrun")
        .label_if(has30, "code30")
        .label_if(enc.is_empty(), "empty-encoding")
        .label_if(case.reference.is_empty(), "empty-reference")
        .label_if(case.target.len() > 10_000, "target>10k");
    if enc.is_empty() && case.target != case.reference {
        return Report::fail("encoding is empty although the target differs from the reference".to_string());
    }
    if enc.contains(&0xFF) {
        return Report::fail("encoding contains the pack separator 0xFF".to_string());
    }
    if dec != case.target {
        if has30 && ctx_known_code30 {
            rep.verdict = Verdict::Known { id: F_CODE30.into(), what: "a target containing the unknown-letter code 30 cannot be decoded (literal 'A'+30 is not recognised)".into() };
            return rep;
        }
        let at = dec.iter().zip(case.target.iter()).position(|(a, b)| a != b).unwrap_or(dec.len().min(case.target.len()));
        return Report::fail(format!("decode(encode(t)) != t: lengths {} vs {}, first difference at {}", dec.len(), case.target.len(), at));
    }
    if !enc.is_empty() {
        match agcref::lz_decode(&case.reference, &enc, mm) {
            Ok(v) if v == case.target => {}
            Ok(v) => return Report::fail(format!("independent LZ decoder returns {} symbols, target has {}", v.len(), case.target.len())),
            Err(err) => return Report::fail(format!("independent LZ decoder rejects the text: {}", err)),
        }
    }
    rep
}

#[derive(Clone, Debug)]
enum Op {
    Copy { from: u16, len: u16 },
    RevCopy { from: u16, len: u16 },
    Lit(Vec<u8>),
    NRun(u16),
    Sym(u8),
    /// a copied range with point edits inside (SNPs / 1-base indels): literals followed by a
    /// match that continues at the predicted position => '!' rewriting and back-extension
    Mutated { from: u16, len: u16, seed: u64, rate_ppm: u32 },
}

fn apply(reference: &[u8], ops: &[Op]) -> Vec<u8> {
    let mut t = Vec::new();
    for op in ops {
        match op {
            Op::Copy { from, len } | Op::RevCopy { from, len } => {
                if reference.is_empty() {
                    continue;
                }
                let f = scale(*from, reference.len());
                let l = (*len as usize).min(reference.len() - f);
                if matches!(op, Op::Copy { .. }) {
                    t.extend_from_slice(&reference[f..f + l]);
                } else {
                    t.extend(reference[f..f + l].iter().rev().map(|&c| if c < 4 { 3 - c } else { c }));
                }
            }
            Op::Mutated { from, len, seed, rate_ppm } => {
                if reference.is_empty() {
                    continue;
                }
                let f = scale(*from, reference.len());
                let l = (*len as usize).min(reference.len() - f);
                let mut r = SplitMix::new(*seed);
                for &c in &reference[f..f + l] {
                    if r.chance(*rate_ppm as u64) {
                        match r.below(4) {
                            0 => {}                                  // deletion
                            1 => { t.push(r.below(4) as u8); t.push(c); } // insertion
                            _ => t.push(if c < 4 { (c + 1 + r.below(3) as u8) % 4 } else { r.below(4) as u8 }), // SNP
                        }
                    } else {
                        t.push(c);
                    }
                }
            }
            Op::Lit(v) => t.extend_from_slice(v),
            Op::NRun(n) => t.extend(std::iter::repeat(4u8).take(*n as usize)),
            Op::Sym(c) => t.push(*c),
        }
    }
    t
}

fn reference_strategy(max_len: usize) -> impl Strategy<Value = Vec<u8>> {
    let small = prop::collection::vec(0u8..4, 0..200);
    let big = (any::<u64>(), 200usize..max_len.max(201), 0u32..30_000, 0u32..20_000).prop_map(|(s, n, n_ppm, iupac_ppm)| {
        let mut r = SplitMix::new(s);
        let mut v = Vec::with_capacity(n);
        while v.len() < n {
            if r.chance(n_ppm as u64 / 10) {
                let run = 1 + r.below(12) as usize;
                v.extend(std::iter::repeat(4u8).take(run));
            } else if r.chance(iupac_ppm as u64) {
                v.push(5 + r.below(11) as u8);
            } else {
                v.push(r.below(4) as u8);
            }
        }
        v.truncate(n);
        v
    });
    let low = (prop::collection::vec(0u8..4, 1..9), 0usize..600).prop_map(|(u, n)| u.iter().cycle().take(n).copied().collect::<Vec<u8>>());
    prop_oneof![3 => small, 5 => big, 1 => low]
}

fn op_strategy() -> impl Strategy<Value = Op> {
    prop_oneof![
        10 => (any::<u16>(), prop_oneof![1u16..40, 40u16..400, 400u16..6000]).prop_map(|(from, len)| Op::Copy { from, len }),
        1 => (any::<u16>(), 10u16..300).prop_map(|(from, len)| Op::RevCopy { from, len }),
        6 => (any::<u16>(), 50u16..4000, any::<u64>(), prop_oneof![Just(1_000u32), Just(10_000u32), Just(30_000u32), Just(100_000u32)])
            .prop_map(|(from, len, seed, rate_ppm)| Op::Mutated { from, len, seed, rate_ppm }),
        4 => prop::collection::vec(0u8..4, 1..6).prop_map(Op::Lit),
        1 => prop::collection::vec(0u8..4, 6..60).prop_map(Op::Lit),
        2 => prop_oneof![1u16..7, 7u16..400].prop_map(Op::NRun),
        2 => (4u8..16).prop_map(Op::Sym),
        1 => Just(Op::Sym(30)),
    ]
}

pub fn strat(max_len: usize) -> impl Strategy<Value = LzCase> {
    let mm = prop_oneof![3 => 5u8..=32, 2 => Just(20u8), 1 => Just(15u8), 1 => Just(5u8), 1 => Just(32u8)];
    let derived = (reference_strategy(max_len), prop::collection::vec(op_strategy(), 0..14), mm.clone()).prop_map(|(r, ops, mm)| {
        let t = apply(&r, &ops);
        LzCase { reference: r, target: t, min_match: mm }
    });
    // whole-reference relatives: identical, prefix, suffix, extension, one SNP, one indel
    let relatives = (reference_strategy(max_len), 0u8..8, any::<u16>(), prop::collection::vec(0u8..5, 0..40), mm.clone()).prop_map(|(r, kind, at, extra, mm)| {
        let p = scale(at, r.len());
        let t: Vec<u8> = match kind {
            0 => r.clone(),
            1 => r[..p].to_vec(),
            2 => r[p..].to_vec(),
            3 => r.iter().copied().chain(extra.iter().copied()).collect(),
            4 => extra.iter().copied().chain(r.iter().copied()).collect(),
            5 => {
                let mut t = r.clone();
                if !t.is_empty() {
                    t[p] = (t[p] + 1) % 4;
                }
                t
            }
            6 => r[..p].iter().copied().chain(extra.iter().copied()).chain(r[p..].iter().copied()).collect(),
            _ => r[..p / 2].iter().copied().chain(r[p..].iter().copied()).collect(),
        };
        LzCase { reference: r, target: t, min_match: mm }
    });
    let unrelated = (reference_strategy(max_len.min(3000)), prop::collection::vec(prop_oneof![20 => 0u8..4, 1 => 4u8..16, 1 => Just(30u8)], 1..300), mm)
        .prop_map(|(r, t, mm)| LzCase { reference: r, target: t, min_match: mm });
    prop_oneof![6 => derived, 3 => relatives, 1 => unrelated]
}


/// libFuzzer leg: decode a byte string into a case (every byte string decodes).
/// mode even: raw - the bytes after the header are split into reference and target;
/// mode odd: the target is built from the reference by an edit script read from the bytes.
pub fn from_fuzz(data: &[u8]) -> LzCase {
    use crate::fuzzing::{sym, Cur};
    let mut c = Cur::new(data);
    let min_match = 5 + c.u8() % 28;
    let mode = c.u8();
    let sym30 = |b: u8| if b == 255 { 30 } else { sym(b) };
    if mode & 1 == 0 {
        let split = c.u16();
        let rest = c.rest();
        let p = scale(split, rest.len() + 1);
        LzCase { reference: rest[..p].iter().map(|&b| sym30(b)).collect(), target: rest[p..].iter().map(|&b| sym30(b)).collect(), min_match }
    } else {
        let rl = (c.u16() % 3000) as usize;
        let reference: Vec<u8> = c.take(rl).iter().map(|&b| sym30(b)).collect();
        let mut ops = Vec::new();
        while !c.is_empty() && ops.len() < 24 {
            let op = match c.u8() % 8 {
                0 | 1 | 2 => Op::Copy { from: c.u16(), len: c.u16() % 3000 },
                3 => Op::RevCopy { from: c.u16(), len: 10 + c.u8() as u16 },
                4 => Op::Mutated { from: c.u16(), len: 50 + c.u16() % 2000, seed: c.u32() as u64, rate_ppm: [1_000, 10_000, 30_000, 100_000][(c.u8() % 4) as usize] },
                5 => {
                    let n = 1 + (c.u8() % 32) as usize;
                    Op::Lit(c.take(n).iter().map(|&b| b & 3).collect())
                }
                6 => {
                    let b = c.u8();
                    Op::NRun(if b < 160 { 1 + (b % 8) as u16 } else { 1 + c.u16() % 400 })
                }
                _ => Op::Sym(sym30(c.u8() | 0xd0)),
            };
            ops.push(op);
        }
        let target = apply(&reference, &ops);
        LzCase { reference, target, min_match }
    }
}

pub fn fuzz_seeds() -> Vec<Vec<u8>> {
    let mut out = Vec::new();
    let mut r = SplitMix::new(0xC09);
    let body: Vec<u8> = (0..300).map(|_| (r.next() & 0x7f) as u8).collect();
    // raw: target == reference, target = reference with a few edits
    let mut a = vec![15u8, 0, 0x00, 0x80];
    a.extend_from_slice(&body);
    a.extend_from_slice(&body);
    out.push(a.clone());
    let n = a.len();
    a[n - 40] ^= 1;
    a[n - 90] = 210;
    out.push(a);
    // ops: copy, mutated copy, N run, literal
    let mut b = vec![10u8, 1, 200, 0];
    b.extend_from_slice(&body[..200]);
    b.extend_from_slice(&[0, 0, 0, 150, 0, 4, 0, 64, 100, 0, 1, 2, 3, 4, 1, 6, 5, 5, 3, 1, 2, 3, 7, 230, 2, 0, 128, 60, 0]);
    out.push(b);
    out.push(vec![5, 0, 0, 0, 1, 2, 3]);
    out
}

fn strings(alphabet: &'static [u8], max_len: usize) -> Vec<Vec<u8>> {
    let a = alphabet.len() as u64;
    let mut out = Vec::new();
    for len in 0..=max_len {
        for idx0 in 0..a.pow(len as u32) {
            let mut idx = idx0;
            let mut v = Vec::with_capacity(len);
            for _ in 0..len {
                v.push(alphabet[(idx % a) as usize]);
                idx /= a;
            }
            out.push(v);
        }
    }
    out
}

pub fn run(ctx: &Ctx, stats: &mut Stats) {
    let known30 = ctx.known.is_open(F_CODE30);
    let check = move |c: &LzCase| check_with(known30, c);
    // exhaustive 1: all (ref, target) with |ref| <= 6, 1 <= |target| <= 6 over {A, C, N}, min match 5
    let refs = strings(&[0, 1, 4], 6);
    let targets = refs.clone();
    let items = refs.iter().flat_map(|r| targets.iter().filter(|t| !t.is_empty()).map(move |t| LzCase { reference: r.clone(), target: t.clone(), min_match: 5 }));
    run_exhaustive(ctx, stats, "exh-ACN<=6", items, &check);
    // exhaustive 2: all targets of length 1..5 over {A,C,G,T,N,30} against a fixed family of references
    let t2 = strings(&[0, 1, 2, 3, 4, 30], 5);
    let r2: Vec<Vec<u8>> = vec![vec![], vec![0, 1, 2, 3, 0, 1], vec![0, 0, 0, 0, 0, 0, 0], vec![4, 4, 4, 4, 4], vec![3, 2, 1, 0, 4, 0, 1, 2, 3], vec![0, 1, 2, 3, 4, 30, 0, 1, 2, 3]];
    let nrefs = ctx.tier.pick(3, r2.len());
    let items = r2.iter().take(nrefs).flat_map(|r| t2.iter().filter(|t| !t.is_empty()).map(move |t| LzCase { reference: r.clone(), target: t.clone(), min_match: 5 }));
    run_exhaustive(ctx, stats, "exh-6sym<=5", items, &check);
    // N runs of every length 1..=8 at every offset of a short target, with and without a matching reference
    let mut nitems = Vec::new();
    for run in 1usize..=8 {
        for pre in 0usize..=8 {
            for post in 0usize..=8 {
                for mm in [5u8, 6, 15] {
                    let base: Vec<u8> = (0..40).map(|i| ((i * 7 + i / 3) % 4) as u8).collect();
                    let mut t: Vec<u8> = base[..pre].to_vec();
                    t.extend(std::iter::repeat(4u8).take(run));
                    t.extend_from_slice(&base[20..20 + post]);
                    nitems.push(LzCase { reference: base.clone(), target: t, min_match: mm });
                }
            }
        }
    }
    run_exhaustive(ctx, stats, "exh-nruns", nitems.into_iter(), &check);
    let n = ctx.tier.pick(3_000_000, 30_000_000);
    let max_len = ctx.tier.pick(2_000, 40_000);
    run_prop(ctx, stats, "random", n, strat(max_len), &check);
    // coverage-guided leg (thorough tier): same oracle inside a libFuzzer target
    if ctx.tier == Tier::Thorough || std::env::var("VERIF_FUZZ").is_ok() {
        crate::fuzzing::run_stage(ctx, stats, "lz", ctx.tier.pick(400_000, 8_000_000));
    }
}

pub fn replay(ctx: &Ctx, _stage: &str, case: &Value) -> Report {
    match from_case::<LzCase>(case) {
        Ok(c) => check_with(ctx.known.is_open(F_CODE30), &c),
        Err(e) => Report::fail(e),
    }
}

pub const INFO: PropInfo = PropInfo {
    id: "C09",
    level: "exploration",
    rule: "cases = (reference, non-empty target, min match 5..32) over codes 0..15 and 30; exhaustive: all pairs with |ref|<=6, |target|<=6 over {A,C,N} at min match 5, all targets of length <=5 over {A,C,G,T,N,30} against a family of references, N runs of length 1..8 at every offset; random: targets derived from the reference by edit scripts (copied ranges, reverse-complemented ranges, short and long literal insertions, N runs 1..400, IUPAC symbols, code 30), whole-reference relatives (identical, prefix, suffix, extension, SNP, indel), unrelated pairs; references up to 2 kb (quick) / 40 kb (thorough) incl. N runs, IUPAC, short periods. Oracle: decode(encode(t)) == t with the empty-encoding convention, empty => t == reference, no 0xFF, and an independent decoder of the emitted text. Non-trivial = encoding holds at least one match and one literal; distinct = distinct case.",
    assumptions: &["min match >= 5 (the key length min-3 must be positive)", "the independent decoder in vlib/src/agcref.rs defines the LZ-diff V2 text"],
    needs_cli: false,
    needs_checked: false,
    max_shards: 16,
    shrink_iters: 400,
    watchdog_s: (900, 10800),
    run,
    replay,
};
