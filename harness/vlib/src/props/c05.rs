//! C05 — the compression pipeline always terminates.

use crate::agcref;
use crate::engine::*;
use crate::fasta;
use crate::gen::{self, Collection, GenCfg};
use crate::pipecheck::{run_spec, Schedule, Spec};
use crate::props::c04::schedule_strategy;
use crate::props::c06::{shuttle_campaign, shuttle_replay, ShuttleRun};
use proptest::prelude::*;
use serde::{Deserialize, Serialize};
use serde_json::Value;

#[derive(Clone, Debug, Hash, Serialize, Deserialize)]
pub struct TermCase {
    pub collection: Collection,
    pub schedule: Schedule,
    /// queue capacity as a fraction (1/256) of the largest contig; 0 = use the schedule's
    pub capacity_frac: u16,
}

pub const F_OVERSIZE: &str = "C05-contig-larger-than-queue";

pub fn check_in(ctx: &Ctx, case: &TermCase) -> Report {
    let c = &case.collection;
    let dir = ctx.scratch("c05");
    let inputs = match fasta::write_inputs(c, &dir.path.join("in")) {
        Ok(i) => i,
        Err(e) => return Report::inconclusive(format!("harness: cannot write inputs: {}", e)),
    };
    let largest = c.largest_contig() as u64;
    let mut sch = case.schedule.clone();
    if case.capacity_frac > 0 {
        sch.queue_capacity = (largest * case.capacity_frac as u64 / 256).max(1);
    }
    let oversize = sch.queue_capacity < largest;
    let out = dir.file("a.agc");
    let spec = Spec { params: c.params.clone(), schedule: sch.clone(), inputs: inputs.clone(), out: out.clone(), watchdog_s: 90 };
    let mut rep = Report::pass(false)
        .label(if c.params.single_file { "mode:single-file" } else { "mode:multi-file" })
        .label_if(oversize, "contig-larger-than-queue")
        .label_if(sch.queue_capacity < 2 * largest && !oversize, "capacity<2-contigs")
        .label_if(sch.threads == 1, "workers=1")
        .label_if(sch.threads == 16, "workers=16")
        .label_if(sch.extra_sync_every > 0, "explicit-sync_and_flush");
    let o = match run_spec(&spec, &dir.path, "0") {
        Ok(o) => o,
        Err(e) => return Report::inconclusive(e),
    };
    if let Some(why) = o.status.strip_prefix("stuck: ") {
        if oversize && ctx.known.is_open(F_OVERSIZE) {
            rep.verdict = Verdict::Known { id: F_OVERSIZE.into(), what: ctx.known.what(F_OVERSIZE) };
            rep.nontrivial = true;
            return rep;
        }
        return Report { verdict: Verdict::Fail(format!("the pipeline is stuck ({} workers, capacity {}, largest contig {}): {}", sch.threads, sch.queue_capacity, largest, why)), ..rep };
    }
    if o.status == "slow" {
        return Report::inconclusive(format!("create did not finish within {} s but the event log does not prove a stuck state ({} events)", spec.watchdog_s, o.events));
    }
    if o.status.starts_with("panic") {
        return Report { verdict: Verdict::Fail(format!("create panicked: {}", o.status)), ..rep };
    }
    if o.status != "ok" {
        return rep.label("create-returned-error");
    }
    // everything queued was compressed: the archive lists every pushed contig
    let bytes = std::fs::read(&out).unwrap_or_default();
    match agcref::read_archive(&bytes) {
        Ok(f) => {
            let want: Vec<(String, Vec<String>)> = c.samples.iter().map(|s| (s.name.clone(), s.contigs.iter().map(|r| r.header.clone()).collect())).collect();
            let got: Vec<(String, Vec<String>)> = f.samples.iter().cloned().zip(f.contigs.iter().map(|s| s.iter().map(|c| c.0.clone()).collect())).collect();
            if want != got {
                return Report { verdict: Verdict::Fail("finalize returned but the archive does not list every pushed contig".to_string()), ..rep };
            }
            if f.contigs.iter().flatten().any(|c| c.1.is_empty()) {
                return Report { verdict: Verdict::Fail("finalize returned but a pushed contig has no compressed segments".to_string()), ..rep };
            }
        }
        Err(e) => return Report { verdict: Verdict::Fail(format!("finalize returned Ok but the archive is not readable: {}", e)), ..rep },
    }
    if !o.log_problems.is_empty() {
        return Report { verdict: Verdict::Fail(format!("event log of a finished run is not well-formed: {}", o.log_problems.join("; "))), ..rep };
    }
    rep.nontrivial = sch.threads >= 2 && o.rounds >= 2 && o.producer_waits > 0;
    rep.label_if(o.rounds >= 2, "rounds>=2").label_if(o.rounds >= 6, "rounds>=6").label_if(o.producer_waits > 0, "producer-waited").label_if(o.tokens_behind_contigs, "tokens-queued-behind-contigs")
}

fn strat() -> impl Strategy<Value = TermCase> {
    let multi = gen::collection_strategy(GenCfg { max_contig: 2500, max_samples: 5, many_samples_pct: 5, single_file: None, vary_presentation: false, swarm_pct: 0 });
    let rounds = (gen::collection_strategy(GenCfg { max_contig: 1200, max_samples: 5, many_samples_pct: 15, single_file: Some(true), vary_presentation: false, swarm_pct: 0 }), 1u32..12).prop_map(|(mut c, pack)| {
        c.params.pack = pack;
        c
    });
    (
        prop_oneof![2 => multi, 3 => rounds],
        schedule_strategy(),
        1u32..=16,
        // capacity: below one contig, about one contig, a few contigs, or the schedule's (large)
        prop_oneof![1 => 1u16..256, 3 => 256u16..300, 3 => 300u16..1200, 3 => Just(0u16)],
        prop_oneof![3 => Just(0u32), 1 => 1u32..6],
        prop::collection::vec(prop_oneof![3 => Just(0u32), 2 => 1u32..300], 1..6),
    )
        .prop_map(|(collection, mut schedule, threads, capacity_frac, extra_sync_every, delays)| {
            schedule.threads = threads;
            schedule.extra_sync_every = extra_sync_every;
            schedule.push_delays_us = delays;
            TermCase { collection, schedule, capacity_frac }
        })
}

pub fn run(ctx: &Ctx, stats: &mut Stats) {
    let c2 = ctx.clone();
    let n = ctx.tier.pick(192, 6_000);
    run_prop(ctx, stats, "pipeline", n, strat(), &move |c: &TermCase| check_in(&c2, c));
    // leg 2: the queue source + the protocol skeleton under shuttle
    if !ctx.vshuttle.exists() {
        stats.inconclusive.push("vshuttle binary missing".into());
        return;
    }
    let it = ctx.tier.pick(100_000u64, 2_000_000u64);
    let seed = ctx.stage_seed("shuttle-pipeline");
    shuttle_campaign(ctx, stats, "shuttle-random", &ShuttleRun { scenario: "pipeline".into(), seed, iters: it, pct_depth: None, schedule: None });
    for d in [2u32, 3, 4] {
        shuttle_campaign(ctx, stats, "shuttle-pct", &ShuttleRun { scenario: "pipeline".into(), seed: seed ^ d as u64, iters: it / 4, pct_depth: Some(d), schedule: None });
    }
}

pub fn replay(ctx: &Ctx, stage: &str, case: &Value) -> Report {
    if stage.starts_with("shuttle") {
        return from_case::<ShuttleRun>(case).map(|c| shuttle_replay(ctx, &c)).unwrap_or_else(Report::fail);
    }
    match from_case::<TermCase>(case) {
        Ok(c) => check_in(ctx, &c),
        Err(e) => Report::fail(e),
    }
}

pub const INFO: PropInfo = PropInfo {
    id: "C05",
    level: "exploration",
    rule: "two legs. (1) the real pipeline on real threads, in-process in a child: generated collections (2/5 per-sample files, 3/5 one PanSN file with -l 1..11 so that sync-token rounds are frequent; some with > 50 samples) x workers 1..16 x queue capacity from a fraction of the largest contig, about one contig, a few contigs, to 2 GiB x explicit sync_and_flush every 1..5 contigs x producer delays x worker-side perturbation (hook H2). Oracle: push / sync_and_flush / finalize return; the archive then lists every pushed contig with compressed segments; the event log (hooks H2/H3) of the finished run is well-formed (token pulls a multiple of the worker count, each worker has one arrival and one departure per round at each of the 4 barriers, every worker logs its exit, nothing admitted after close). A run that exceeds the 90 s watchdog after neither its log nor the scheduling counters of its threads have moved for 30 s (or after 540 s in any case) is a VIOLATION only if the log proves a stuck state (every live thread's last event is a blocking wait whose wake-up condition is false in the logged queue / barrier state); or, when the hooks see no blocking wait (e.g. a thread blocked on a lock), if the operating system shows that no thread of the pipeline process ran at all during 5 s (over three samples every thread is asleep in the kernel and either has unchanged context-switch counters or used <= 2 clock ticks of CPU - ragc's only timed waits are the 10-100 ms sleep-polls of drain() and sync_and_flush(), which read the queue length and wake nobody - and no event was logged) - otherwise it is inconclusive. (2) the real queue source plus a skeleton of the protocol (1 producer, 1..4 workers, 0..3 token rounds with 4 barrier waits each, final tokens, close, join; capacity 2..12, contig sizes 1..cap and, for a quarter of them, cap+1..cap+3 - larger than the whole queue, admitted once it is empty) under shuttle's random and PCT schedulers: the deadlock detector, all contigs processed exactly once, every worker through every round. Non-trivial (leg 1) = >= 2 workers, >= 2 rounds and a producer wait observed; distinct = distinct case.",
    assumptions: &["liveness is attacked in bounded form only: 'returns within the watchdog, or the log proves a stuck state'", "leg 2 tests the queue's wake-up logic under the pipeline's usage pattern with a hand-written skeleton of worker_thread(); agc_compressor.rs itself is covered by leg 1"],
    needs_cli: false,
    needs_checked: false,
    max_shards: 16,
    shrink_iters: 12,
    watchdog_s: (2400, 14400),
    run,
    replay,
};
