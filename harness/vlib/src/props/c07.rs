//! C07 — range and length queries agree with full extraction.

use crate::archive_case::*;
use crate::engine::*;
use crate::gen::{self, Collection, GenCfg};
use crate::pipeline;
use crate::util::{codes_to_letters, SplitMix};
use ragc_core::{Decompressor, DecompressorConfig};
use serde_json::Value;

const EXHAUSTIVE_LEN: usize = 90;
const QUERY_BUDGET: usize = 30_000;

pub fn check_in(ctx: &Ctx, c: &Collection, stats_queries: &std::cell::Cell<u64>) -> Report {
    let e = match examine(ctx, c, "c07") {
        Outcome::Ready(e) => e,
        Outcome::NotCreated(r) => return r,
    };
    let mut rep = Report::pass(false);
    rep.labels = e.labels.clone();
    let path = e.built.archive.to_string_lossy().to_string();
    let mut d = match Decompressor::open(&path, DecompressorConfig { verbosity: 0 }) {
        Ok(d) => d,
        Err(err) => return Report { verdict: Verdict::Fail(format!("open failed: {:#}", err)), ..rep },
    };
    let k = c.params.k as usize;
    let mut rng = SplitMix::new(crate::util::stable_hash(c));
    let mut budget = QUERY_BUDGET;
    let mut nontrivial = false;
    let mut queries = 0u64;
    for s in &c.samples {
        for r in &s.contigs {
            let full = match d.get_contig(&s.name, &r.header) {
                Ok(f) => f,
                Err(err) => return Report { verdict: Verdict::Fail(format!("get_contig({:?},{:?}) failed: {:#}", s.name, r.header, err)), ..rep },
            };
            if codes_to_letters(&full) != r.seq {
                // C01's business; the range oracle below is relative to the full extraction
                rep.labels.push("full-extraction-differs-from-input");
            }
            let len = full.len();
            match d.get_contig_length(&s.name, &r.header) {
                Ok(l) if l == len => {}
                Ok(l) => return Report { verdict: Verdict::Fail(format!("get_contig_length({:?},{:?}) = {}, full extraction has {} bases", s.name, r.header, l, len)), ..rep },
                Err(err) => return Report { verdict: Verdict::Fail(format!("get_contig_length failed: {:#}", err)), ..rep },
            }
            let descs = match d.get_contig_segments_desc(&s.name, &r.header) {
                Ok(x) => x,
                Err(err) => return Report { verdict: Verdict::Fail(format!("get_contig_segments_desc failed: {:#}", err)), ..rep },
            };
            // junctions: contig positions where a new segment starts contributing
            let mut junctions: Vec<usize> = Vec::new();
            let mut pos = 0usize;
            let mut zero_contrib = false;
            for (i, ds) in descs.iter().enumerate() {
                let contrib = if i == 0 { ds.raw_length as usize } else { (ds.raw_length as usize).saturating_sub(k) };
                if i > 0 {
                    junctions.push(pos);
                    if contrib == 0 {
                        zero_contrib = true;
                    }
                }
                pos += contrib;
            }
            let interesting = descs.len() >= 3 && (descs.iter().any(|x| x.is_rev_comp) || zero_contrib || e.labels.contains(&"split-segment"));
            if interesting {
                nontrivial = true;
            }
            if zero_contrib {
                rep.labels.push("zero-contribution-segment");
            }
            let mut pairs: Vec<(usize, usize)> = Vec::new();
            if len <= EXHAUSTIVE_LEN && budget > (len + 3) * (len + 3) {
                for a in 0..=len + 2 {
                    for b in 0..=len + 2 {
                        pairs.push((a, b));
                    }
                }
                rep.labels.push("contig-exhaustive");
            } else {
                // every start within +-(k+1) of a (sub-sampled) junction x a family of ends
                let mut js = junctions.clone();
                while js.len() > 6 {
                    let i = rng.below(js.len() as u64) as usize;
                    js.remove(i);
                }
                for (ji, &j) in js.iter().enumerate() {
                    let next = junctions.iter().copied().find(|&x| x > j).unwrap_or(len);
                    let lo = j.saturating_sub(k + 1);
                    for a in lo..=(j + k + 1).min(len + 1) {
                        for b in [a, a + 1, a + k, j, j + 1, next, next + 1, len, len + 5, usize::MAX] {
                            pairs.push((a, b));
                        }
                        if ji == 0 {
                            // ranges spanning three or more segments
                            if let Some(&far) = junctions.get(junctions.iter().position(|&x| x == j).unwrap_or(0) + 2) {
                                pairs.push((a, far + 1));
                            }
                        }
                    }
                }
                for _ in 0..120 {
                    let a = rng.below(len as u64 + 2) as usize;
                    let b = rng.below(len as u64 + 3) as usize;
                    pairs.push((a, b));
                }
                pairs.push((0, len));
                pairs.push((0, usize::MAX));
                pairs.push((len, len + 1));
            }
            for (a, b) in pairs {
                if budget == 0 {
                    break;
                }
                budget -= 1;
                queries += 1;
                let want: &[u8] = if a >= b || a >= len { &[] } else { &full[a..b.min(len)] };
                match guarded(|| d.get_contig_range(&s.name, &r.header, a, b)) {
                    Ok(Ok(got)) => {
                        if got != want {
                            return Report {
                                verdict: Verdict::Fail(format!(
                                    "get_contig_range({:?},{:?},{},{}) returned {} bases, full extraction [{}..min({},{})) has {} (junctions {:?}, k={})",
                                    s.name,
                                    r.header,
                                    a,
                                    b,
                                    got.len(),
                                    a,
                                    b,
                                    len,
                                    want.len(),
                                    junctions.iter().take(8).collect::<Vec<_>>(),
                                    k
                                )),
                                ..rep
                            };
                        }
                    }
                    Ok(Err(err)) => return Report { verdict: Verdict::Fail(format!("get_contig_range({:?},{:?},{},{}) failed: {:#}", s.name, r.header, a, b, err)), ..rep },
                    Err(p) => return Report { verdict: Verdict::Fail(format!("get_contig_range({:?},{:?},{},{}) panicked: {}", s.name, r.header, a, b, p)), ..rep },
                }
                if interesting && junctions.iter().any(|&j| a < j && j < b.min(len)) {
                    if junctions.iter().filter(|&&j| a < j && j < b.min(len)).count() >= 2 {
                        rep.labels.push("range-spans>=3-segments");
                    }
                }
            }
        }
    }
    // CLI: ctglen and getrange for one contig
    if crate::util::stable_hash(c) % 4 == 0 {
        let s = &c.samples[0];
        let r = &s.contigs[s.contigs.len() - 1];
        let len = r.seq.len();
        match pipeline::cli(&ctx.ragc, &["ctglen", &path, "-s", &s.name, "-c", &r.header]) {
            Ok(o) if o.ok() => {
                if String::from_utf8_lossy(&o.stdout).trim() != len.to_string() {
                    return Report { verdict: Verdict::Fail(format!("ragc ctglen prints {:?}, contig has {} bases", String::from_utf8_lossy(&o.stdout).trim(), len)), ..rep };
                }
            }
            Ok(o) => return Report { verdict: Verdict::Fail(format!("ragc ctglen failed: {}", o.describe())), ..rep },
            Err(err) => return Report::inconclusive(format!("cannot run ragc: {}", err)),
        }
        let a = rng.below(len as u64 + 1) as usize;
        let b = a + rng.below((len - a) as u64 + 3) as usize;
        match pipeline::cli(&ctx.ragc, &["getrange", &path, "-s", &s.name, "-c", &r.header, "--start", &a.to_string(), "--end", &b.to_string(), "-f", "raw"]) {
            Ok(o) if o.ok() => {
                let want = if a >= b || a >= len { "" } else { &r.seq[a..b.min(len)] };
                if String::from_utf8_lossy(&o.stdout) != want {
                    return Report { verdict: Verdict::Fail(format!("ragc getrange --start {} --end {} prints {} bases, expected {}", a, b, o.stdout.len(), want.len())), ..rep };
                }
                rep.labels.push("cli-getrange-compared");
            }
            Ok(o) => return Report { verdict: Verdict::Fail(format!("ragc getrange failed: {}", o.describe())), ..rep },
            Err(err) => return Report::inconclusive(format!("cannot run ragc: {}", err)),
        }
    }
    stats_queries.set(stats_queries.get() + queries);
    rep.nontrivial = nontrivial;
    rep.labels.sort();
    rep.labels.dedup();
    rep
}

fn cfg() -> GenCfg {
    GenCfg { max_contig: 2500, max_samples: 4, many_samples_pct: 0, single_file: None, vary_presentation: false, swarm_pct: 0 }
}

pub fn run(ctx: &Ctx, stats: &mut Stats) {
    let c2 = ctx.clone();
    let q = std::cell::Cell::new(0u64);
    let n = ctx.tier.pick(256, 4000);
    {
        let check = |c: &Collection| check_in(&c2, c, &q);
        run_prop(ctx, stats, "archives", n, gen::collection_strategy(cfg()), &check);
    }
    stats.add_extra_count("range_queries", q.get());
}

pub fn replay(ctx: &Ctx, _stage: &str, case: &Value) -> Report {
    let q = std::cell::Cell::new(0u64);
    match from_case::<Collection>(case) {
        Ok(c) => check_in(ctx, &c, &q),
        Err(e) => Report::fail(e),
    }
}

pub const INFO: PropInfo = PropInfo {
    id: "C07",
    level: "exploration",
    rule: "cases = archives of the C01 collection space with small contigs favoured (contigs 1..2500 bases, segment sizes mostly 50..400, so dozens of segments, splits, reverse-complemented and k-mer-only trailing segments); per contig the query set is ALL (start,end) with 0 <= start,end <= len+2 when len <= 90, otherwise every start within +-(k+1) of up to 6 segment junctions (junctions computed from the descriptor table) crossed with ends {start, start+1, start+k, junction, junction+1, next junction(+1), len, len+5, usize::MAX}, ranges over >= 3 segments, and 120 random pairs (at most 30000 queries per archive; the count is reported as range_queries). Oracle: get_contig_range == get_contig[start..min(end,len)) (empty when start>=end or start>=len), get_contig_length == length of the full extraction; `ragc ctglen` / `ragc getrange -f raw` for one contig in a quarter of the cases. Non-trivial archive = has a contig with >= 3 segments of which one is reverse-complemented, produced by a split, or contributes zero bases; distinct = distinct collection.",
    assumptions: &["the oracle is relative to full extraction (whose equality with the input is C01's subject)"],
    needs_cli: true,
    needs_checked: false,
    max_shards: 16,
    shrink_iters: 40,
    watchdog_s: (1800, 14400),
    run,
    replay,
};
