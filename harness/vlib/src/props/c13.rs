//! C13 — the archive container returns exactly what was stored (stateful / model based).

use crate::agcref;
use crate::engine::*;
use crate::util::{scale, SplitMix};
use proptest::prelude::*;
use ragc_common::{decode_varint, encode_varint, read_varint, write_varint, Archive};
use serde::{Deserialize, Serialize};
use serde_json::Value;
use std::collections::BTreeMap;

#[derive(Clone, Debug, Hash, Serialize, Deserialize)]
pub enum WOp {
    Register(u8),
    Add { stream: u8, data: Vec<u8>, meta: u64 },
    AddBuffered { stream: u8, data: Vec<u8>, meta: u64 },
    Flush,
    SetRaw { stream: u8, raw: u64 },
    /// `n` buffered additions of 1..6 distinct bytes each to pseudo-random streams (a large flush)
    Burst { seed: u64, n: u16 },
    /// one large part (around the 4 MiB write-buffer size), bytes generated from the seed
    AddBig { stream: u8, seed: u64, len: u32, buffered: bool, meta: u64 },
    /// `n` further streams, each registered under its own name and given one small part
    ManyStreams { seed: u64, n: u16 },
    RegisterNamed(String),
    /// a part for the most recently registered stream
    AddToLast { data: Vec<u8>, meta: u64, buffered: bool },
}

/// Burst / AddBig are shorthand (keeps cases and replay files small); everything is checked on the expanded list
fn expand_ops(ops: &[WOp]) -> Vec<WOp> {
    let mut out = Vec::with_capacity(ops.len());
    for op in ops {
        match op {
            WOp::Burst { seed, n } => {
                let mut r = SplitMix::new(*seed);
                for j in 0..*n {
                    let stream = r.below(8) as u8;
                    let len = 1 + r.below(6) as usize;
                    let mut data = vec![(j >> 8) as u8, j as u8];
                    data.extend((0..len).map(|_| r.next() as u8));
                    out.push(WOp::AddBuffered { stream, data, meta: r.below(5) * (j as u64 + 1) });
                }
            }
            WOp::ManyStreams { seed, n } => {
                let mut r = SplitMix::new(*seed);
                for j in 0..*n {
                    out.push(WOp::RegisterNamed(format!("m{}-{}", j, seed % 97)));
                    let len = 1 + r.below(4) as usize;
                    let data: Vec<u8> = (0..len).map(|_| r.next() as u8).collect();
                    out.push(WOp::AddToLast { data, meta: r.below(70000), buffered: j % 3 == 0 });
                }
            }
            WOp::AddBig { stream, seed, len, buffered, meta } => {
                let mut r = SplitMix::new(*seed);
                let mut data = Vec::with_capacity(*len as usize);
                while data.len() < *len as usize {
                    data.extend_from_slice(&r.next().to_le_bytes());
                }
                data.truncate(*len as usize);
                out.push(if *buffered { WOp::AddBuffered { stream: *stream, data, meta: *meta } } else { WOp::Add { stream: *stream, data, meta: *meta } });
            }
            o => out.push(o.clone()),
        }
    }
    out
}

#[derive(Clone, Debug, Hash, Serialize, Deserialize)]
pub enum ROp {
    Next(u8),
    ById(u8, u16),
    ByIdOutOfRange(u8),
    Counts(u8),
}

#[derive(Clone, Debug, Hash, Serialize, Deserialize)]
pub struct ArcCase {
    pub names: Vec<String>,
    pub ops: Vec<WOp>,
    pub reads: Vec<ROp>,
}

#[derive(Default)]
struct MStream {
    name: String,
    raw: u64,
    parts: Vec<(Vec<u8>, u64)>,
}

pub fn check_in(ctx: &Ctx, case: &ArcCase) -> Report {
    let dir = ctx.scratch("c13");
    let path = dir.file("a.agc");
    let mut model: Vec<MStream> = Vec::new();
    let mut ids: BTreeMap<String, usize> = BTreeMap::new();
    let mut buffered_parts: BTreeMap<usize, Vec<(Vec<u8>, u64)>> = BTreeMap::new();
    let (mut n_buf, mut n_imm, mut interleaved) = (0usize, 0usize, false);
    let mut last_kind = 0u8;

    let mut w = Archive::new_writer();
    if let Err(e) = w.open(&path) {
        return Report::fail(format!("cannot create archive: {}", e));
    }
    let ops = expand_ops(&case.ops);
    let mut max_flush = 0usize;
    let mut big_part = false;
    for op in &ops {
        match op {
            WOp::Burst { .. } | WOp::AddBig { .. } | WOp::ManyStreams { .. } => unreachable!(),
            WOp::RegisterNamed(name) => {
                let got = w.register_stream(name);
                let want = *ids.entry(name.clone()).or_insert_with(|| {
                    model.push(MStream { name: name.clone(), ..Default::default() });
                    model.len() - 1
                });
                if got != want {
                    return Report::fail(format!("register_stream({:?}) returned {}, model {}", name, got, want));
                }
            }
            WOp::AddToLast { data, meta, buffered } => {
                if model.is_empty() {
                    continue;
                }
                let s = model.len() - 1;
                if *buffered {
                    w.add_part_buffered(s, data.clone(), *meta);
                    buffered_parts.entry(s).or_default().push((data.clone(), *meta));
                } else {
                    if let Err(e) = w.add_part(s, data, *meta) {
                        return Report::fail(format!("add_part failed: {}", e));
                    }
                    model[s].parts.push((data.clone(), *meta));
                }
            }
            WOp::Register(n) => {
                let name = &case.names[*n as usize % case.names.len()];
                let got = w.register_stream(name);
                let want = *ids.entry(name.clone()).or_insert_with(|| {
                    model.push(MStream { name: name.clone(), ..Default::default() });
                    model.len() - 1
                });
                if got != want {
                    return Report::fail(format!("register_stream({:?}) returned {}, model {}", name, got, want));
                }
                if w.get_stream_id(name) != Some(want) {
                    return Report::fail(format!("get_stream_id({:?}) on the writer != {}", name, want));
                }
            }
            WOp::Add { stream, data, meta } => {
                if model.is_empty() {
                    if w.add_part(*stream as usize, data, *meta).is_ok() {
                        return Report::fail("add_part on an unregistered stream id succeeded".to_string());
                    }
                    continue;
                }
                let s = *stream as usize % model.len();
                if let Err(e) = w.add_part(s, data, *meta) {
                    return Report::fail(format!("add_part failed: {}", e));
                }
                model[s].parts.push((data.clone(), *meta));
                big_part |= data.len() >= 4 << 20;
                n_imm += 1;
                if last_kind == 2 {
                    interleaved = true;
                }
                last_kind = 1;
            }
            WOp::AddBuffered { stream, data, meta } => {
                if model.is_empty() {
                    continue;
                }
                let s = *stream as usize % model.len();
                w.add_part_buffered(s, data.clone(), *meta);
                buffered_parts.entry(s).or_default().push((data.clone(), *meta));
                max_flush = max_flush.max(buffered_parts.values().map(|v| v.len()).sum());
                big_part |= data.len() >= 4 << 20;
                n_buf += 1;
                if last_kind == 1 {
                    interleaved = true;
                }
                last_kind = 2;
            }
            WOp::Flush => {
                if let Err(e) = w.flush_buffers() {
                    return Report::fail(format!("flush_buffers failed: {}", e));
                }
                for (s, parts) in std::mem::take(&mut buffered_parts) {
                    model[s].parts.extend(parts);
                }
            }
            WOp::SetRaw { stream, raw } => {
                if model.is_empty() {
                    continue;
                }
                let s = *stream as usize % model.len();
                w.set_raw_size(s, *raw);
                model[s].raw = *raw;
                if w.get_raw_size(s) != *raw {
                    return Report::fail("get_raw_size on the writer does not return what was set".to_string());
                }
            }
        }
    }
    // a flush before close, as the statement requires
    if let Err(e) = w.flush_buffers() {
        return Report::fail(format!("final flush_buffers failed: {}", e));
    }
    for (s, parts) in std::mem::take(&mut buffered_parts) {
        model[s].parts.extend(parts);
    }
    if let Err(e) = w.close() {
        return Report::fail(format!("close failed: {}", e));
    }
    drop(w);

    // reopen
    let mut r = Archive::new_reader();
    if let Err(e) = r.open(&path) {
        return Report::fail(format!("reopen failed: {:#}", e));
    }
    let names: Vec<String> = model.iter().map(|m| m.name.clone()).collect();
    if r.get_stream_names() != names {
        return Report::fail(format!("stream names after reopen {:?} != written {:?}", r.get_stream_names(), names));
    }
    if r.get_num_streams() != model.len() {
        return Report::fail("get_num_streams differs".to_string());
    }
    for (i, m) in model.iter().enumerate() {
        if r.get_stream_id(&m.name) != Some(i) {
            return Report::fail(format!("stream {:?} has id {:?} after reopen, written as {}", m.name, r.get_stream_id(&m.name), i));
        }
        if r.get_num_parts(i) != m.parts.len() {
            return Report::fail(format!("stream {:?}: {} parts after reopen, {} written", m.name, r.get_num_parts(i), m.parts.len()));
        }
        if r.get_raw_size(i) != m.raw {
            return Report::fail(format!("stream {:?}: raw size {} after reopen, {} set", m.name, r.get_raw_size(i), m.raw));
        }
    }
    let expect = |d: &Vec<u8>, meta: u64| -> (Vec<u8>, u64) {
        if d.is_empty() {
            (Vec::new(), 0)
        } else {
            (d.clone(), meta)
        }
    };
    let mut cursor = vec![0usize; model.len()];
    let mut out_of_order = false;
    let mut last_by_id: BTreeMap<usize, usize> = BTreeMap::new();
    // the generated read script, then a full sequential and a full random-access sweep
    let mut script: Vec<ROp> = case.reads.clone();
    for i in 0..model.len() {
        for _ in 0..=model[i].parts.len() {
            script.push(ROp::Next(i as u8));
        }
        for j in (0..model[i].parts.len()).rev() {
            script.push(ROp::ById(i as u8, ((j as u32 * 65536 + 65535) / model[i].parts.len().max(1) as u32).min(65535) as u16));
        }
    }
    if model.is_empty() {
        if r.get_part(0).is_ok() {
            return Report::fail("get_part on an archive without streams succeeded".to_string());
        }
    }
    for op in &script {
        if model.is_empty() {
            break;
        }
        match op {
            ROp::Next(s) => {
                let s = *s as usize % model.len();
                let got = match r.get_part(s) {
                    Ok(g) => g,
                    Err(e) => return Report::fail(format!("get_part({}) failed: {:#}", s, e)),
                };
                let want = model[s].parts.get(cursor[s]).map(|(d, m)| expect(d, *m));
                if got != want {
                    return Report::fail(format!("sequential read #{} of stream {} differs from what was stored (got {:?} bytes, want {:?})", cursor[s], s, got.as_ref().map(|g| g.0.len()), want.as_ref().map(|g| g.0.len())));
                }
                if want.is_some() {
                    cursor[s] += 1;
                }
            }
            ROp::ById(s, p) => {
                let s = *s as usize % model.len();
                if model[s].parts.is_empty() {
                    continue;
                }
                let p = scale(*p, model[s].parts.len());
                if let Some(&prev) = last_by_id.get(&s) {
                    if p < prev {
                        out_of_order = true;
                    }
                }
                last_by_id.insert(s, p);
                let got = match r.get_part_by_id(s, p) {
                    Ok(g) => g,
                    Err(e) => return Report::fail(format!("get_part_by_id({}, {}) failed: {:#}", s, p, e)),
                };
                let (d, m) = &model[s].parts[p];
                if got != expect(d, *m) {
                    return Report::fail(format!("part {} of stream {} read by id differs: got {} bytes / meta {}, stored {} bytes / meta {}", p, s, got.0.len(), got.1, d.len(), m));
                }
            }
            ROp::ByIdOutOfRange(s) => {
                let s = *s as usize % model.len();
                if r.get_part_by_id(s, model[s].parts.len()).is_ok() {
                    return Report::fail("get_part_by_id past the last part succeeded".to_string());
                }
                if r.get_part_by_id(model.len(), 0).is_ok() {
                    return Report::fail("get_part_by_id on an unknown stream succeeded".to_string());
                }
            }
            ROp::Counts(s) => {
                let s = *s as usize % model.len();
                if r.get_num_parts(s) != model[s].parts.len() {
                    return Report::fail("get_num_parts changed during reading".to_string());
                }
            }
        }
    }
    // the file itself: an independent parser must see the same directory and the same parts
    let bytes = match std::fs::read(&path) {
        Ok(b) => b,
        Err(e) => return Report::fail(format!("cannot read archive back: {}", e)),
    };
    match agcref::Container::parse(&bytes) {
        Err(e) => return Report::fail(format!("independent container parser rejects the file: {}", e)),
        Ok(c) => {
            if c.streams.len() != model.len() {
                return Report::fail("independent parser sees a different number of streams".to_string());
            }
            for (sd, m) in c.streams.iter().zip(model.iter()) {
                if sd.name != m.name || sd.raw_size != m.raw || sd.parts.len() != m.parts.len() {
                    return Report::fail(format!("independent parser: directory entry of {:?} differs", m.name));
                }
                for (j, (d, meta)) in m.parts.iter().enumerate() {
                    match c.part(sd, j) {
                        Ok((pm, pd)) => {
                            if pd != &d[..] || pm != *meta {
                                return Report::fail(format!("independent parser: part {} of {:?} differs (meta {} vs {})", j, m.name, pm, meta));
                            }
                        }
                        Err(e) => return Report::fail(format!("independent parser: part {} of {:?}: {}", j, m.name, e)),
                    }
                }
            }
        }
    }
    let big_meta = model.iter().any(|m| m.raw > u32::MAX as u64 || m.parts.iter().any(|p| p.1 > u32::MAX as u64));
    Report::pass(model.len() >= 2 && n_buf >= 1 && n_imm >= 1 && interleaved && out_of_order)
        .label_if(model.len() >= 2, "streams>=2")
        .label_if(interleaved, "buffered/immediate-interleaved")
        .label_if(out_of_order, "out-of-order-read")
        .label_if(model.iter().any(|m| m.parts.iter().any(|p| p.0.is_empty())), "empty-part")
        .label_if(big_meta, "meta>=2^32")
        .label_if(model.iter().any(|m| m.parts.is_empty()), "stream-without-parts")
        .label_if(case.ops.iter().filter(|o| matches!(o, WOp::Register(_))).count() > model.len(), "re-registration")
        .label_if(max_flush > 20, "flush-of->20-buffered-parts")
        .label_if(max_flush > 100, "flush-of->100-buffered-parts")
        .label_if(big_part, "part>=4MiB(write-buffer-size)")
        .label_if(model.iter().any(|m| m.parts.iter().any(|p| p.0.len() >= 8192)), "part>=8k")
}


/// libFuzzer leg: a history (names, write ops, read script) read from the bytes.
pub fn from_fuzz(data: &[u8]) -> ArcCase {
    use crate::fuzzing::Cur;
    let mut c = Cur::new(data);
    fn mag(c: &mut Cur) -> u64 {
        match c.u8() % 10 {
            0 | 1 | 2 => (c.u16() % 300) as u64,
            3 | 4 => {
                let k = (c.u8() % 8) as u32;
                let d = (c.u8() % 3) as u64;
                (1u64 << (8 * k + 8).min(63)).wrapping_sub(1).wrapping_add(d)
            }
            5 => u64::MAX,
            6 => u64::MAX - 1,
            7 => 1u64 << 63,
            _ => c.u64(),
        }
    }
    fn bytes(c: &mut Cur) -> Vec<u8> {
        let b = c.u8();
        match b {
            0..=40 => Vec::new(),
            41..=240 => c.take((b - 40) as usize).to_vec(),
            241..=252 => {
                let n = 200 + (c.u16() % 9000) as usize;
                let mut r = SplitMix::new(c.u16() as u64);
                (0..n).map(|_| r.next() as u8).collect()
            }
            _ => {
                let n = 9000 + (c.u16() as usize) % 56536;
                let mut r = SplitMix::new(c.u16() as u64);
                (0..n).map(|_| r.next() as u8).collect()
            }
        }
    }
    let nn = 1 + c.u8() % 5;
    let mut names: Vec<String> = Vec::new();
    for _ in 0..nn {
        let l = 1 + (c.u8() % 40) as usize;
        let mut n: String = c.take(l).iter().map(|&b| (0x20 + b % 95) as char).collect();
        if n.is_empty() {
            n.push('s');
        }
        names.push(n);
    }
    names.dedup();
    let nops = c.u8() % 40;
    let mut ops = Vec::new();
    for _ in 0..nops {
        if c.is_empty() {
            break;
        }
        let op = c.u8() % 13;
        let stream = c.u8() % 8;
        ops.push(match op {
            0 | 1 | 2 => WOp::Register(stream),
            3 | 4 | 5 | 6 => {
                let data = bytes(&mut c);
                WOp::Add { stream, data, meta: mag(&mut c) }
            }
            7 | 8 | 9 | 10 => {
                let data = bytes(&mut c);
                WOp::AddBuffered { stream, data, meta: mag(&mut c) }
            }
            11 => WOp::Flush,
            _ => WOp::SetRaw { stream, raw: mag(&mut c) },
        });
    }
    let nreads = c.u8() % 30;
    let mut reads = Vec::new();
    for _ in 0..nreads {
        let op = c.u8() % 9;
        let s = c.u8() % 8;
        reads.push(match op {
            0 | 1 | 2 => ROp::Next(s),
            3 | 4 | 5 | 6 => ROp::ById(s, c.u16()),
            7 => ROp::ByIdOutOfRange(s),
            _ => ROp::Counts(s),
        });
    }
    ArcCase { names, ops, reads }
}

pub fn fuzz_seeds() -> Vec<Vec<u8>> {
    vec![
        vec![2, 3, b'a', b'b', b'c', 2, b'x', b'y', 6, 0, 0, 0, 1, 3, 0, 45, 1, 2, 3, 4, 5, 0, 7, 0, 7, 1, 43, 9, 9, 9, 3, 0, 0, 11, 0, 3, 1, 0, 5, 4, 0, 0, 3, 1, 0, 0, 3, 0, 0, 0, 8, 0],
        vec![1, 1, b'z', 3, 3, 0, 0, 0, 0, 7, 0, 0, 5, 11, 0, 2, 0, 0, 3, 0, 0, 0],
    ]
}

fn magnitude() -> impl Strategy<Value = u64> {
    prop_oneof![
        3 => 0u64..300,
        2 => (0u32..8, 0u64..3).prop_map(|(k, d)| (1u64 << (8 * k + 8).min(63)).wrapping_sub(1).wrapping_add(d)),
        1 => Just(u64::MAX),
        1 => Just(u64::MAX - 1),
        1 => Just(1u64 << 63),
        2 => any::<u64>(),
    ]
}

fn data_strategy() -> impl Strategy<Value = Vec<u8>> {
    prop_oneof![
        2 => Just(Vec::new()),
        6 => prop::collection::vec(any::<u8>(), 1..64),
        2 => (any::<u64>(), 64usize..9000).prop_map(|(s, n)| { let mut r = SplitMix::new(s); (0..n).map(|_| r.next() as u8).collect() }),
        1 => (any::<u64>(), 9000usize..65536).prop_map(|(s, n)| { let mut r = SplitMix::new(s); (0..n).map(|_| r.next() as u8).collect() }),
    ]
}

fn strat() -> impl Strategy<Value = ArcCase> {
    let names = prop::collection::vec("[ -~]{1,40}", 1..6);
    let wop = prop_oneof![
        3 => (0u8..8).prop_map(WOp::Register),
        4 => (0u8..8, data_strategy(), magnitude()).prop_map(|(stream, data, meta)| WOp::Add { stream, data, meta }),
        4 => (0u8..8, data_strategy(), magnitude()).prop_map(|(stream, data, meta)| WOp::AddBuffered { stream, data, meta }),
        1 => Just(WOp::Flush),
        1 => (0u8..8, magnitude()).prop_map(|(stream, raw)| WOp::SetRaw { stream, raw }),
        1 => (any::<u64>(), prop_oneof![2 => 15u16..40, 2 => 40u16..300, 1 => 300u16..1500]).prop_map(|(seed, n)| WOp::Burst { seed, n }),
    ];
    let rop = prop_oneof![
        3 => (0u8..8).prop_map(ROp::Next),
        4 => (0u8..8, any::<u16>()).prop_map(|(s, p)| ROp::ById(s, p)),
        1 => (0u8..8).prop_map(ROp::ByIdOutOfRange),
        1 => (0u8..8).prop_map(ROp::Counts),
    ];
    (names, prop::collection::vec(wop, 0..40), prop::collection::vec(rop, 0..30)).prop_map(|(mut names, ops, reads)| {
        names.dedup();
        ArcCase { names, ops, reads }
    })
}

fn dir_strat() -> impl Strategy<Value = ArcCase> {
    // a part costs ~5-7 directory bytes, a stream ~10-14: both sides of a 64 KiB directory
    let parts = (any::<u64>(), prop_oneof![3 => 8_000u16..16_000, 1 => 16_000u16..50_000]).prop_map(|(seed, n)| WOp::Burst { seed, n });
    let streams = (any::<u64>(), prop_oneof![3 => 3_000u16..8_000, 1 => 8_000u16..20_000]).prop_map(|(seed, n)| WOp::ManyStreams { seed, n });
    (prop_oneof![parts, streams], prop::collection::vec((0u8..8, prop::collection::vec(any::<u8>(), 0..20), magnitude(), any::<bool>()), 0..5)).prop_map(|(big, small)| {
        let mut ops: Vec<WOp> = (0..8u8).map(WOp::Register).collect();
        for (stream, data, meta, buffered) in small {
            ops.push(if buffered { WOp::AddBuffered { stream, data, meta } } else { WOp::Add { stream, data, meta } });
        }
        ops.push(big);
        ArcCase { names: (0..8).map(|i| format!("n{}", i)).collect(), ops, reads: vec![] }
    })
}

fn big_strat() -> impl Strategy<Value = ArcCase> {
    const B: u32 = 4 << 20;
    let small = prop_oneof![
        2 => (0u8..4).prop_map(WOp::Register),
        3 => (0u8..4, prop::collection::vec(any::<u8>(), 0..40), magnitude()).prop_map(|(stream, data, meta)| WOp::Add { stream, data, meta }),
        3 => (0u8..4, prop::collection::vec(any::<u8>(), 0..40), magnitude()).prop_map(|(stream, data, meta)| WOp::AddBuffered { stream, data, meta }),
        1 => Just(WOp::Flush),
    ]
    .boxed();
    let len = prop_oneof![2 => Just(B - 1), 3 => Just(B), 2 => Just(B + 1), 2 => B..B + (2 << 20), 1 => (1u32 << 20)..B, 1 => Just(B - 9), 1 => Just(2 * B)];
    let big = (0u8..4, any::<u64>(), len, any::<bool>(), magnitude()).prop_map(|(stream, seed, len, buffered, meta)| WOp::AddBig { stream, seed, len, buffered, meta }).boxed();
    (prop::collection::vec("[a-z]{1,8}", 1..4), prop::collection::vec(small.clone(), 0..6), big.clone(), prop::collection::vec(small, 0..6), prop::option::weighted(0.3, big)).prop_map(|(mut names, mut a, b1, c, b2)| {
        names.dedup();
        let mut ops = vec![WOp::Register(0)];
        ops.append(&mut a);
        ops.push(b1);
        ops.extend(c);
        ops.extend(b2);
        ArcCase { names, ops, reads: vec![] }
    })
}

#[derive(Clone, Debug, Hash, Serialize, Deserialize)]
pub struct VarCase(pub u64);

fn check_varint(c: &VarCase) -> Report {
    let v = c.0;
    let mut buf = Vec::new();
    let n = match write_varint(&mut buf, v) {
        Ok(n) => n,
        Err(e) => return Report::fail(format!("write_varint failed: {}", e)),
    };
    if n != buf.len() || buf != agcref::write_be_varint(v) {
        return Report::fail(format!("write_varint({}) = {:?}, rule says {:?}", v, buf, agcref::write_be_varint(v)));
    }
    if encode_varint(v) != buf {
        return Report::fail("encode_varint differs from write_varint".to_string());
    }
    let mut cur = std::io::Cursor::new(&buf);
    match read_varint(&mut cur) {
        Ok((x, used)) if x == v && used == buf.len() => {}
        other => return Report::fail(format!("read_varint(write_varint({})) = {:?}", v, other)),
    }
    match decode_varint(&buf) {
        Ok((x, used)) if x == v && used == buf.len() => {}
        other => return Report::fail(format!("decode_varint(encode_varint({})) = {:?}", v, other.map_err(|e| e.to_string()))),
    }
    let mut pos = 0;
    if agcref::read_be_varint(&buf, &mut pos) != Ok(v) {
        return Report::fail("independent reader disagrees".to_string());
    }
    Report::pass(v > 255).label(match buf.len() {
        1 => "bytes:1",
        2 => "bytes:2",
        3 => "bytes:3",
        4 | 5 => "bytes:4-5",
        6 | 7 | 8 => "bytes:6-8",
        _ => "bytes:9",
    })
}

pub fn run(ctx: &Ctx, stats: &mut Stats) {
    // varint codec: every byte-length boundary +-2, then random magnitudes
    let mut edge: Vec<VarCase> = Vec::new();
    for k in 0..=8u32 {
        let b = if k == 8 { u64::MAX } else { (1u64 << (8 * k)).wrapping_sub(1) };
        for d in 0..5u64 {
            edge.push(VarCase(b.wrapping_add(d).wrapping_sub(2)));
        }
    }
    run_exhaustive(ctx, stats, "varint-edges", edge.into_iter(), &check_varint);
    let nv = ctx.tier.pick(2_000_000, 20_000_000);
    run_prop(ctx, stats, "varint-random", nv, (0u32..64, any::<u64>()).prop_map(|(s, v)| VarCase(v >> s)), &check_varint);
    let n = ctx.tier.pick(60_000, 1_000_000);
    let c2 = ctx.clone();
    run_prop(ctx, stats, "histories", n, strat(), &move |c: &ArcCase| check_in(&c2, c));
    // parts around the size of the 4 MiB write buffer (immediate and buffered), between small parts
    let nb = ctx.tier.pick(64, 800);
    let c3 = ctx.clone();
    run_prop(ctx, stats, "large-parts", nb, big_strat(), &move |c: &ArcCase| check_in(&c3, c));
    // directories (footers) around and above 64 KiB: ten thousand and more parts, thousands of streams
    let nd = ctx.tier.pick(48, 600);
    let c4 = ctx.clone();
    run_prop(ctx, stats, "large-directory", nd, dir_strat(), &move |c: &ArcCase| check_in(&c4, c));
    if ctx.tier == Tier::Thorough || std::env::var("VERIF_FUZZ").is_ok() {
        crate::fuzzing::run_stage(ctx, stats, "arc", ctx.tier.pick(100_000, 2_000_000));
    }
}

pub fn replay(ctx: &Ctx, stage: &str, case: &Value) -> Report {
    if stage.starts_with("varint") {
        return match from_case::<VarCase>(case) {
            Ok(c) => check_varint(&c),
            Err(e) => Report::fail(e),
        };
    }
    match from_case::<ArcCase>(case) {
        Ok(c) => check_in(ctx, &c),
        Err(e) => Report::fail(e),
    }
}

pub const INFO: PropInfo = PropInfo {
    id: "C13",
    level: "exploration",
    rule: "cases = operation histories over {register_stream(name from a pool of 1..5 printable-ASCII names, so re-registration is frequent), add_part, add_part_buffered, flush_buffers, set_raw_size} (0..40 ops, one of which may be a burst of 15..1500 small buffered additions to pseudo-random streams so that single flushes commit > 20, > 100 parts; data 0..64 kB; metadata and raw sizes at every byte-length boundary up to 2^64-1) followed by flush, close, reopen and a generated read script (sequential get_part, get_part_by_id in any order, out-of-range ids) plus a full sequential and a reverse random-access sweep. Oracle: a sequential model of the container (commit order: immediate at call time, buffered at the next flush by stream id then insertion order; empty parts read back as (empty, 0)) and an independent parser of the file's footer and parts. The integer codec is checked separately on every byte-length boundary and 4*10^5 random magnitudes against the format rule. Stage large-directory (48 quick / 600 thorough): 8000..50000 small parts in one flush, or 3000..20000 streams with one part each, so that the stream directory (footer) lies on both sides of 64 KiB; same oracle. Stage large-parts (64 quick / 800 thorough): one or two parts of 4 MiB -9/-1/0/+1 .. 8 MiB (the write-buffer size and beyond; immediate or buffered) between small parts, same oracle. Non-trivial history = >=2 streams, buffered and immediate additions interleaved, and an out-of-order read; distinct = distinct history.",
    assumptions: &["stream ids passed to add_part_buffered are registered ids (an unregistered id makes the later flush fail; outside the stated histories)", "files are small (offsets < 2^32); offset magnitudes up to 2^64-1 are covered by the integer-codec stage only"],
    needs_cli: false,
    needs_checked: false,
    max_shards: 16,
    shrink_iters: 300,
    watchdog_s: (900, 10800),
    run,
    replay,
};
