//! C16 — every successfully created archive is fully extractable (any FASTA text).

use crate::engine::*;
use crate::fasta::{normalise_sequence, parse_fasta};
use crate::gen::Params;
use crate::pipeline;
use crate::util::{scale, SplitMix};
use proptest::prelude::*;
use serde::{Deserialize, Serialize};
use serde_json::Value;

#[derive(Clone, Debug, Hash, Serialize, Deserialize)]
pub struct TextRecord {
    pub header: String,
    /// sequence lines as written (a "" entry is a blank line)
    pub lines: Vec<String>,
}

#[derive(Clone, Debug, Hash, Serialize, Deserialize)]
pub struct TextFile {
    pub stem: String,
    pub leading_blank_lines: u8,
    pub records: Vec<TextRecord>,
    pub crlf: bool,
    pub final_newline: bool,
}

#[derive(Clone, Debug, Hash, Serialize, Deserialize)]
pub struct TextCase {
    pub params: Params,
    pub files: Vec<TextFile>,
}

fn render(f: &TextFile) -> Vec<u8> {
    let nl = if f.crlf { "\r\n" } else { "\n" };
    let mut lines: Vec<String> = Vec::new();
    for _ in 0..f.leading_blank_lines {
        lines.push(String::new());
    }
    for r in &f.records {
        lines.push(format!(">{}", r.header));
        lines.extend(r.lines.iter().cloned());
    }
    let mut out = lines.join(nl).into_bytes();
    if f.final_newline && !lines.is_empty() {
        out.extend_from_slice(nl.as_bytes());
    }
    out
}

/// sample name of a record: PanSN header wins, else the file stem
fn sample_of(header: &str, stem: &str) -> String {
    let parts: Vec<&str> = header.split('#').collect();
    if parts.len() >= 3 {
        format!("{}#{}", parts[0], parts[1])
    } else {
        stem.to_string()
    }
}

/// expected content: per sample (first-seen order) the records with at least one base
fn expected(case: &TextCase) -> Vec<(String, Vec<(String, String)>)> {
    let mut out: Vec<(String, Vec<(String, String)>)> = Vec::new();
    for f in &case.files {
        for r in &f.records {
            let seq = normalise_sequence(r.lines.join("\n").as_bytes());
            if seq.is_empty() {
                continue;
            }
            let s = sample_of(&r.header, &f.stem);
            match out.iter_mut().find(|x| x.0 == s) {
                Some(e) => e.1.push((r.header.clone(), seq)),
                None => out.push((s, vec![(r.header.clone(), seq)])),
            }
        }
    }
    out
}

pub fn check_in(ctx: &Ctx, case: &TextCase) -> Report {
    let dir = ctx.scratch("c16");
    let mut inputs = Vec::new();
    for f in &case.files {
        let p = dir.path.join(format!("{}.fa", f.stem));
        if let Err(e) = std::fs::write(&p, render(f)) {
            return Report::inconclusive(format!("harness: cannot write input: {}", e));
        }
        inputs.push(p);
    }
    let want = expected(case);
    let non_iupac_later = case.files.iter().enumerate().any(|(fi, f)| f.records.iter().enumerate().any(|(ri, r)| (fi > 0 || ri > 0) && r.lines.iter().any(|l| l.bytes().any(|b| b > 64 && !b"ACGTNRYSWKMBDHVUacgtnryswkmbdhvu".contains(&b)))));
    let empty_record_before_later = case.files.iter().any(|f| {
        f.records.iter().enumerate().any(|(i, r)| i + 1 < f.records.len() && r.lines.is_empty())
    });
    let leading_blank = case.files.iter().any(|f| f.leading_blank_lines > 0 && !f.records.is_empty());
    let mut rep = Report::pass(non_iupac_later || empty_record_before_later || leading_blank)
        .label_if(non_iupac_later, "non-IUPAC-letter-in-later-record")
        .label_if(empty_record_before_later, "header-only-record-before-another")
        .label_if(leading_blank, "leading-blank-line")
        .label_if(case.files.iter().any(|f| f.crlf), "crlf")
        .label_if(case.files.iter().any(|f| !f.final_newline), "no-final-newline")
        .label_if(case.files.iter().any(|f| f.records.iter().any(|r| r.lines.iter().any(|l| l.is_empty()))), "interior-blank-line")
        .label_if(case.files.len() == 1, "single-file")
        .label_if(want.is_empty(), "no-bases-at-all");
    let archive = dir.file("out.agc");
    let o = match pipeline::cli_create(&ctx.ragc, &case.params, &archive, &inputs) {
        Ok(o) => o,
        Err(e) => return Report::inconclusive(format!("cannot run ragc: {}", e)),
    };
    if o.timed_out {
        return Report::inconclusive("ragc create timed out".to_string());
    }
    if !o.ok() {
        // failing with an error is allowed
        return rep.label(if o.panicked() { "create-failed(panic)" } else { "create-failed(error)" });
    }
    rep = rep.label("create-ok");
    let a = archive.to_string_lossy().to_string();
    let ls = match pipeline::cli(&ctx.ragc, &["listset", &a]) {
        Ok(o) => o,
        Err(e) => return Report::inconclusive(format!("cannot run ragc: {}", e)),
    };
    if !ls.ok() {
        return Report { verdict: Verdict::Fail(format!("create exited 0 but listset fails: {}", ls.describe())), ..rep };
    }
    let listed: Vec<String> = String::from_utf8_lossy(&ls.stdout).lines().map(|s| s.to_string()).collect();
    let mut got: Vec<(String, Vec<(String, String)>)> = Vec::new();
    for s in &listed {
        let g = match pipeline::cli(&ctx.ragc, &["getset", &a, s]) {
            Ok(o) => o,
            Err(e) => return Report::inconclusive(format!("cannot run ragc: {}", e)),
        };
        if !g.ok() {
            return Report { verdict: Verdict::Fail(format!("create exited 0 and lists sample {:?}, but getset fails: {}", s, g.describe())), ..rep };
        }
        let recs: Vec<(String, String)> = parse_fasta(&g.stdout).into_iter().filter(|r| !r.1.is_empty()).collect();
        got.push((s.clone(), recs));
    }
    // samples without any base may or may not be listed; everything with a base must be there, in order
    let got_nonempty: Vec<(String, Vec<(String, String)>)> = got.into_iter().filter(|s| !s.1.is_empty()).collect();
    if let Some(d) = crate::fasta::first_difference(&want, &got_nonempty) {
        return Report { verdict: Verdict::Fail(format!("create exited 0 but the archive does not hold the input (input vs archive): {}", d)), ..rep };
    }
    rep
}

const LETTERS_ODD: &[u8] = b"EFIJLOPQXZefijlopqxz";
const IUPAC_ALL: &[u8] = b"ACGTNRYSWKMBDHVUacgtnryswkmbdhvu";
const NON_LETTERS: &[u8] = b"0123456789-*. ";

#[derive(Clone, Debug)]
struct RecRecipe {
    /// 0 normal, 1 header only, 2 only non-letters, 3 only a blank line
    kind: u8,
    from: u16,
    len: u16,
    odd_ppm: u32,
    iupac_ppm: u32,
    junk_ppm: u32,
    lower: bool,
    width: u8,
    blank_every: u8,
    seed: u64,
    desc: String,
}

fn rec_recipe() -> impl Strategy<Value = RecRecipe> {
    (
        prop_oneof![12 => Just(0u8), 2 => Just(1u8), 1 => Just(2u8), 1 => Just(3u8)],
        any::<u16>(),
        prop_oneof![1u16..40, 40u16..3000],
        prop_oneof![3 => Just(0u32), 3 => Just(2_000u32), 1 => Just(50_000u32)],
        prop_oneof![3 => Just(0u32), 2 => Just(5_000u32)],
        prop_oneof![3 => Just(0u32), 2 => Just(10_000u32)],
        any::<bool>(),
        prop_oneof![Just(0u8), Just(60u8), 1u8..120],
        prop_oneof![4 => Just(0u8), 1 => 1u8..6],
        any::<u64>(),
        prop_oneof![3 => Just(String::new()), 2 => "[!-~]{1,12}( [!-~]{1,8}){0,3}"],
    )
        .prop_map(|(kind, from, len, odd_ppm, iupac_ppm, junk_ppm, lower, width, blank_every, seed, desc)| RecRecipe { kind, from, len, odd_ppm, iupac_ppm, junk_ppm, lower, width, blank_every, seed, desc })
}

fn make_record(base: &[u8], r: &RecRecipe, id: String, allow_hash: bool) -> TextRecord {
    let mut desc = r.desc.clone();
    if !allow_hash {
        desc = desc.replace('#', "%");
    }
    let header = if desc.is_empty() { id } else { format!("{} {}", id, desc) };
    let mut rng = SplitMix::new(r.seed);
    let lines: Vec<String> = match r.kind {
        1 => vec![],
        2 => vec!["12345-*.".to_string(), "...---".to_string()],
        3 => vec![String::new()],
        _ => {
            let f = scale(r.from, base.len().saturating_sub(1).max(1));
            let l = (r.len as usize).min(base.len() - f).max(1);
            let mut text = String::new();
            for &b in &base[f..f + l] {
                let c = if rng.chance(r.odd_ppm as u64) {
                    LETTERS_ODD[rng.below(LETTERS_ODD.len() as u64) as usize]
                } else if rng.chance(r.iupac_ppm as u64) {
                    IUPAC_ALL[rng.below(IUPAC_ALL.len() as u64) as usize]
                } else if rng.chance(3_000) {
                    b"ACGT"[rng.below(4) as usize]
                } else {
                    b
                };
                text.push(if r.lower { c.to_ascii_lowercase() as char } else { c as char });
                if rng.chance(r.junk_ppm as u64) {
                    text.push(NON_LETTERS[rng.below(NON_LETTERS.len() as u64) as usize] as char);
                }
            }
            let mut lines: Vec<String> = if r.width == 0 { vec![text] } else { text.as_bytes().chunks(r.width as usize).map(|c| String::from_utf8_lossy(c).to_string()).collect() };
            if r.blank_every > 0 {
                let mut out = Vec::new();
                for (i, l) in lines.drain(..).enumerate() {
                    out.push(l);
                    if (i + 1) % r.blank_every as usize == 0 {
                        out.push(String::new());
                    }
                }
                lines = out;
            }
            // a sequence line must not look like a header and must not end in blanks that change nothing
            lines.iter().map(|l| l.trim_start_matches('>').to_string()).collect()
        }
    };
    TextRecord { header, lines }
}


// ---------------------------------------------------------------- parser layer (in-process)

const SEQ_ALPHABET: &[u8] = b"ACGTNRYSWKMBDHVUacgtnryswkmbdhvuEFIJLOPQXZefijlopqxz0123456789-*.";

/// The reader every create path is built on (`GenomeIO`), judged against the reference
/// normaliser on the rendered text of one file: the records with at least one base must come
/// back in order, header verbatim, bases under the documented normalisation. A reader error
/// is allowed by the statement ("create either fails ..."), silent loss or change is not.
pub fn check_parser(f: &TextFile) -> Report {
    use ragc_core::genome_io::GenomeIO;
    let text = render(f);
    let want: Vec<(String, String)> = f.records.iter().map(|r| (r.header.clone(), normalise_sequence(r.lines.join("\n").as_bytes()))).filter(|x| !x.1.is_empty()).collect();
    let empty_before_later = f.records.iter().enumerate().any(|(i, r)| i + 1 < f.records.len() && normalise_sequence(r.lines.join("\n").as_bytes()).is_empty());
    let odd = f.records.iter().any(|r| r.lines.iter().any(|l| l.bytes().any(|b| b > 64 && !b"ACGTNRYSWKMBDHVUacgtnryswkmbdhvu".contains(&b))));
    let mut rep = Report::pass(want.len() >= 2 && (empty_before_later || odd || f.leading_blank_lines > 0 || f.crlf))
        .label_if(empty_before_later, "parser:baseless-record-before-another")
        .label_if(odd, "parser:non-IUPAC-letter")
        .label_if(f.leading_blank_lines > 0, "parser:leading-blank-line")
        .label_if(f.crlf, "parser:crlf")
        .label_if(!f.final_newline, "parser:no-final-newline")
        .label_if(f.records.iter().any(|r| r.lines.iter().any(|l| l.is_empty())), "parser:interior-blank-line");
    let got = guarded(|| {
        let mut g = GenomeIO::new(std::io::Cursor::new(text.clone()));
        let mut out: Vec<(String, Vec<u8>)> = Vec::new();
        loop {
            match g.read_contig_converted() {
                Ok(Some((id, codes))) => out.push((id, codes)),
                Ok(None) => return Ok(out),
                Err(e) => return Err(e.to_string()),
            }
            if out.len() > 100_000 {
                return Err("harness: reader does not terminate".to_string());
            }
        }
    });
    let got = match got {
        Ok(Ok(v)) => v,
        Ok(Err(e)) if e.starts_with("harness:") => return Report::fail(e),
        Ok(Err(_)) => return rep.label("parser:reader-error"),
        Err(p) => return Report::fail(format!("FASTA reader panicked: {}", p)),
    };
    let mut got_txt: Vec<(String, String)> = Vec::new();
    for (id, codes) in got {
        if codes.is_empty() {
            continue;
        }
        let mut s = String::with_capacity(codes.len());
        for c in codes {
            match c {
                0..=15 => s.push(crate::util::CODE_LETTERS[c as usize] as char),
                30 => s.push('N'),
                x => return Report::fail(format!("FASTA reader produced symbol code {} (record {:?}), which no extraction path maps to a letter", x, id)),
            }
        }
        got_txt.push((id, s));
    }
    if got_txt.len() != want.len() {
        rep.verdict = Verdict::Fail(format!("FASTA reader returns {} records with bases, the text holds {} (headers read: {:?})", got_txt.len(), want.len(), got_txt.iter().map(|x| x.0.clone()).take(6).collect::<Vec<_>>()));
        return rep;
    }
    for (i, (g, w)) in got_txt.iter().zip(want.iter()).enumerate() {
        if g.0 != w.0 {
            rep.verdict = Verdict::Fail(format!("record {}: header read as {:?}, written {:?}", i, g.0, w.0));
            return rep;
        }
        if g.1 != w.1 {
            let at = g.1.bytes().zip(w.1.bytes()).position(|(a, b)| a != b).unwrap_or(g.1.len().min(w.1.len()));
            rep.verdict = Verdict::Fail(format!("record {} ({:?}): bases differ from the normalised input: lengths {} vs {}, first difference at {}", i, w.0, g.1.len(), w.1.len(), at));
            return rep;
        }
    }
    rep
}

fn clean_header(mut h: String, idx: usize) -> String {
    // the domain of the property: non-empty printable headers that start with a non-blank
    // character other than '>' and carry no trailing blanks (the reader trims both ends)
    while h.ends_with(' ') || h.ends_with('\t') {
        h.pop();
    }
    let first_ok = h.chars().next().map(|c| c != ' ' && c != '\t' && c != '>').unwrap_or(false);
    if !first_ok {
        h = format!("r{}{}", idx, h.trim_start());
    }
    h
}

fn parser_file_strategy() -> impl Strategy<Value = TextFile> {
    let line = prop_oneof![
        6 => prop::collection::vec(prop::sample::select(SEQ_ALPHABET.to_vec()), 1..80).prop_map(|v| String::from_utf8(v).unwrap()),
        2 => prop::collection::vec(prop::sample::select(b"ACGT".to_vec()), 1..200).prop_map(|v| String::from_utf8(v).unwrap()),
        2 => Just(String::new()),
        1 => prop::collection::vec(prop::sample::select(b"0123456789-*.".to_vec()), 1..12).prop_map(|v| String::from_utf8(v).unwrap()),
    ];
    let record = ("[!-~]{1,12}( [ -~]{0,12}){0,3}", prop::collection::vec(line, 0..6));
    (prop::collection::vec(record, 1..7), prop_oneof![3 => Just(0u8), 1 => 1u8..4], any::<bool>(), any::<bool>()).prop_map(|(recs, leading, crlf, final_newline)| {
        let records = recs.into_iter().enumerate().map(|(i, (h, lines))| TextRecord { header: clean_header(h, i), lines }).collect();
        TextFile { stem: "p".to_string(), leading_blank_lines: leading, records, crlf, final_newline }
    })
}

/// libFuzzer leg: bytes -> one FASTA file in the same structured form
pub fn from_fuzz(data: &[u8]) -> TextFile {
    use crate::fuzzing::Cur;
    let mut c = Cur::new(data);
    let flags = c.u8();
    let leading = if flags & 0x30 == 0x30 { 1 + (flags >> 6) } else { 0 };
    let mut records = Vec::new();
    let mut idx = 0;
    loop {
        let hl = 1 + (c.u8() % 24) as usize;
        let h: String = c.take(hl).iter().map(|&b| (0x20 + b % 95) as char).collect();
        let nlines = c.u8() % 6;
        let mut lines = Vec::new();
        for _ in 0..nlines {
            let b = c.u8();
            if b < 40 {
                lines.push(String::new());
                continue;
            }
            let n = 1 + (b as usize - 40) % 60;
            lines.push(c.take(n).iter().map(|&x| SEQ_ALPHABET[x as usize % SEQ_ALPHABET.len()] as char).collect());
        }
        records.push(TextRecord { header: clean_header(h, idx), lines });
        idx += 1;
        if c.is_empty() || records.len() >= 12 {
            break;
        }
    }
    TextFile { stem: "p".to_string(), leading_blank_lines: leading, records, crlf: flags & 1 == 1, final_newline: flags & 2 == 2 }
}

pub fn fuzz_seeds() -> Vec<Vec<u8>> {
    vec![
        vec![2, 3, b'c', b'h', b'r', b'1', 2, 50, 0, 1, 2, 3, 4, 5, 6, 7, 8, 9, 10, 60, 0, 1, 2, 3, 0, 1, 2, 3, 0, 1, 2, 3, 0, 1, 2, 3, 0, 1, 2, 3, 4, 2, b'x', b'y', b'z', 0, 3, b'e', b'n', b'd', 1, 45, 32, 33, 34, 35, 36],
        vec![0x33, 1, b'a', 0, 1, b'b', 1, 41, 40],
    ]
}

fn strat() -> impl Strategy<Value = TextCase> {
    let params = (9u32..16, 40u32..300, 15u32..21, 1u32..5, prop_oneof![Just(50u32), 2u32..9]).prop_map(|(k, segment_size, min_match, threads, pack)| Params {
        k,
        segment_size,
        min_match,
        threads,
        pack,
        fallback_permille: 0,
        queue_capacity: 1 << 30,
        single_file: false,
    });
    let file = (prop::collection::vec(rec_recipe(), 1..5), prop_oneof![4 => Just(0u8), 1 => 1u8..3], prop::bool::weighted(0.2), prop::bool::weighted(0.85));
    (params, any::<u64>(), 300usize..3000, prop::collection::vec(file, 1..5), any::<bool>()).prop_map(|(mut params, seed, base_len, files, pansn)| {
        let mut r = SplitMix::new(seed);
        let base: Vec<u8> = (0..base_len).map(|_| b"ACGT"[r.below(4) as usize]).collect();
        let single = files.len() == 1;
        let pansn = pansn || single;
        params.single_file = single;
        let mut out = Vec::new();
        let n_files = files.len();
        for (fi, (recs, leading, crlf, final_newline)) in files.into_iter().enumerate() {
            let stem = format!("in{}", fi);
            let mut records = Vec::new();
            // a single PanSN file holds two samples
            for (ri, rr) in recs.iter().enumerate() {
                let id = if pansn {
                    let sample = if single { format!("smp{}", if ri * 2 >= recs.len() { 1 } else { 0 }) } else { format!("smp{}", fi) };
                    format!("{}#1#ctg{}", sample, ri)
                } else {
                    format!("ctg{}", ri)
                };
                records.push(make_record(&base, rr, id, pansn));
            }
            let _ = n_files;
            out.push(TextFile { stem, leading_blank_lines: leading, records, crlf, final_newline });
        }
        TextCase { params, files: out }
    })
}

pub fn run(ctx: &Ctx, stats: &mut Stats) {
    let c2 = ctx.clone();
    let n = ctx.tier.pick(480, 10_000);
    run_prop(ctx, stats, "texts", n, strat(), &move |c: &TextCase| check_in(&c2, c));
    // parser layer: the FASTA reader alone, in-process, against the reference normaliser
    let np = ctx.tier.pick(1_500_000, 30_000_000);
    run_prop(ctx, stats, "parser", np, parser_file_strategy(), &check_parser);
    if ctx.tier == Tier::Thorough || std::env::var("VERIF_FUZZ").is_ok() {
        crate::fuzzing::run_stage(ctx, stats, "fasta", ctx.tier.pick(400_000, 8_000_000));
    }
}

pub fn replay(ctx: &Ctx, stage: &str, case: &Value) -> Report {
    if stage == "parser" || stage == "fuzz-fasta" {
        return match from_case::<TextFile>(case) {
            Ok(f) => check_parser(&f),
            Err(e) => Report::fail(e),
        };
    }
    match from_case::<TextCase>(case) {
        Ok(c) => check_in(ctx, &c),
        Err(e) => Report::fail(e),
    }
}

pub const INFO: PropInfo = PropInfo {
    id: "C16",
    level: "exploration",
    rule: "cases = 1..4 FASTA files written byte for byte from a grammar: records with printable-ASCII headers (id plus 0..4 description fields), sequence lines cut from a shared random base sequence (so later samples become LZ deltas) with non-IUPAC letters EFIJLOPQXZ (either case), IUPAC codes, digits and '-*. ' sprinkled in, lower case, line widths 1..120 or unwrapped, interior blank lines, header-only records, records holding only non-letters or only a blank line, 0..2 leading blank lines, CR/LF, missing final newline; per-sample files (plain or PanSN headers) or one PanSN file with two samples. Everything goes through the real binary: oracle = `ragc create` exits non-zero, OR listset exits 0 and every listed sample extracts with exit 0 and the records with at least one base equal the input under the documented normalisation (upper case, bytes <= 64 dropped, non-IUPAC letters -> N), every input record with a base present and in order. Stage `parser` (and the libFuzzer target fz_fasta in the thorough tier): single files over the alphabet IUPAC + EFIJLOPQXZ (both cases) + digits + '-*.', blank lines anywhere, base-less records, CR/LF, missing final newline, judged in-process: ragc's FASTA reader must return exactly the records with at least one base, header verbatim, bases = the normalised input (or an error). Non-trivial = a non-IUPAC letter outside the first record, or a header-only record followed by another record, or a leading blank line; distinct = distinct case.",
    assumptions: &["headers are non-empty, start with a non-blank character other than '>' and carry no trailing blanks; characters above 64 that are not letters are not generated", "a timeout is inconclusive"],
    needs_cli: true,
    needs_checked: false,
    max_shards: 16,
    shrink_iters: 80,
    watchdog_s: (1800, 14400),
    run,
    replay,
};
