//! C06 — bounded priority queue: exactly-once, priority order, capacity bound, close.
//!
//! Three legs: a sequential model-based test, schedule exploration of the real queue
//! source under shuttle (random + PCT schedulers, in the `vshuttle` binary), and real
//! OS threads whose under-lock event log (hook H3) is replayed against the model.

use crate::engine::*;
use crate::pipeline::run_cmd;
use crate::util::SplitMix;
use proptest::prelude::*;
use ragc_core::memory_bounded_queue::{PushError, TryPushError};
use ragc_core::MemoryBoundedQueue;
use serde::{Deserialize, Serialize};
use serde_json::{json, Value};
use std::process::Command;
use std::sync::Arc;
use std::time::Duration;

// ------------------------------------------------------------- sequential --

#[derive(Clone, Debug, Hash, Serialize, Deserialize)]
pub enum QOp {
    Push { prio: u8, size: u16 },
    TryPush { prio: u8, size: u16 },
    Pull,
    TryPull,
    Close,
    Observe,
}

#[derive(Clone, Debug, Hash, Serialize, Deserialize)]
pub struct SeqCase {
    pub cap: u16,
    pub ops: Vec<QOp>,
}

type It = (u8, u32); // (priority, unique id)

pub fn check_seq(case: &SeqCase) -> Report {
    let cap = case.cap as usize;
    let q: MemoryBoundedQueue<It> = MemoryBoundedQueue::new(cap);
    let mut model: Vec<(It, usize)> = Vec::new();
    let mut bytes = 0usize;
    let mut closed = false;
    let mut next_id = 0u32;
    let (mut saw_wb, mut saw_refuse, mut saw_drain_none, mut saw_mix) = (false, false, false, false);
    if q.capacity() != cap {
        return Report::fail("capacity() differs from the constructor argument".to_string());
    }
    for (step, op) in case.ops.iter().enumerate() {
        match op {
            QOp::Push { prio, size } | QOp::TryPush { prio, size } => {
                let size = *size as usize;
                let item = (*prio, next_id);
                next_id += 1;
                let fits = bytes + size <= cap;
                let is_try = matches!(op, QOp::TryPush { .. });
                if !is_try && !fits && !closed && !model.is_empty() {
                    // a blocking push that would wait forever in a single thread: not part of a sequential history
                    continue;
                }
                // (a blocking push into an EMPTY queue is admitted even when the item alone exceeds the capacity)
                let accepted = if is_try {
                    match q.try_push(item, size) {
                        Ok(()) => {
                            if closed || !fits {
                                return Report::fail(format!("step {}: try_push accepted an item although the queue is {}", step, if closed { "closed" } else { "over capacity" }));
                            }
                            true
                        }
                        Err(TryPushError::Closed) => {
                            if !closed {
                                return Report::fail(format!("step {}: try_push reports Closed on an open queue", step));
                            }
                            saw_refuse = true;
                            false
                        }
                        Err(TryPushError::WouldBlock) => {
                            if closed || fits {
                                return Report::fail(format!("step {}: try_push reports WouldBlock although {} + {} <= {} (closed: {})", step, bytes, size, cap, closed));
                            }
                            saw_wb = true;
                            false
                        }
                    }
                } else {
                    match q.push(item, size) {
                        Ok(()) => {
                            if closed {
                                return Report::fail(format!("step {}: push accepted an item after close", step));
                            }
                            true
                        }
                        Err(PushError::Closed) => {
                            if !closed {
                                return Report::fail(format!("step {}: push refused on an open queue", step));
                            }
                            saw_refuse = true;
                            false
                        }
                    }
                };
                if accepted {
                    model.push((item, size));
                    bytes += size;
                    let mut ps: Vec<u8> = model.iter().map(|m| m.0 .0).collect();
                    ps.sort_unstable();
                    ps.dedup();
                    if ps.len() >= 2 {
                        saw_mix = true;
                    }
                }
            }
            QOp::Pull | QOp::TryPull => {
                let is_try = matches!(op, QOp::TryPull);
                if !is_try && model.is_empty() && !closed {
                    continue; // would block forever
                }
                let got = if is_try { q.try_pull() } else { q.pull() };
                match got {
                    None => {
                        if !model.is_empty() {
                            return Report::fail(format!("step {}: pull returned nothing although {} items are queued", step, model.len()));
                        }
                        if closed {
                            saw_drain_none = true;
                        }
                    }
                    Some(it) => {
                        let Some(pos) = model.iter().position(|m| m.0 == it) else {
                            return Report::fail(format!("step {}: pull returned {:?}, which is not queued (never accepted, or returned twice)", step, it));
                        };
                        let best = model.iter().map(|m| m.0 .0).max().unwrap();
                        if it.0 < best {
                            return Report::fail(format!("step {}: pull returned priority {} while priority {} stays queued", step, it.0, best));
                        }
                        let (_, sz) = model.remove(pos);
                        bytes -= sz;
                    }
                }
            }
            QOp::Close => {
                q.close();
                closed = true;
            }
            QOp::Observe => {}
        }
        if q.len() != model.len() || q.current_size() != bytes || q.is_closed() != closed || q.is_empty() != model.is_empty() {
            return Report::fail(format!("step {}: len/current_size/is_closed = {}/{}/{}, model {}/{}/{}", step, q.len(), q.current_size(), q.is_closed(), model.len(), bytes, closed));
        }
        if bytes > cap && model.iter().all(|m| m.1 <= cap) {
            return Report::fail(format!("step {}: {} bytes queued exceed the capacity {} although every item fits", step, bytes, cap));
        }
    }
    // drain: remaining items come out exactly once, in priority order, then end-of-stream
    q.close();
    let mut last: Option<u8> = None;
    while let Some(it) = q.pull() {
        let Some(pos) = model.iter().position(|m| m.0 == it) else {
            return Report::fail(format!("drain returned {:?}, which is not queued", it));
        };
        if let Some(l) = last {
            if it.0 > l {
                return Report::fail("drain is not in priority order".to_string());
            }
        }
        last = Some(it.0);
        model.remove(pos);
    }
    if !model.is_empty() {
        return Report::fail(format!("{} accepted items were never returned", model.len()));
    }
    Report::pass(saw_mix && saw_wb).label_if(saw_wb, "would-block").label_if(saw_refuse, "refused-after-close").label_if(saw_drain_none, "end-of-stream").label_if(saw_mix, "mixed-priorities")
}

fn seq_strategy() -> impl Strategy<Value = SeqCase> {
    (1u16..40).prop_flat_map(|cap| {
        let size = prop_oneof![2 => Just(0u16), 4 => 1u16..=cap, 1 => Just(cap), 1 => Just(cap + 1)];
        let op = prop_oneof![
            4 => (0u8..4, size.clone()).prop_map(|(prio, size)| QOp::Push { prio, size }),
            4 => (0u8..4, size).prop_map(|(prio, size)| QOp::TryPush { prio, size }),
            3 => Just(QOp::Pull),
            3 => Just(QOp::TryPull),
            1 => Just(QOp::Close),
            1 => Just(QOp::Observe),
        ];
        prop::collection::vec(op, 0..60).prop_map(move |ops| SeqCase { cap, ops })
    })
}

// ------------------------------------------------------------ real threads --

#[derive(Clone, Debug, Hash, Serialize, Deserialize)]
pub struct ThreadCase {
    pub cap: u32,
    pub producers: u8,
    pub consumers: u8,
    pub items_per_producer: u8,
    pub seed: u64,
    /// close while producers are still pushing
    pub early_close: bool,
}

pub fn check_threads(case: &ThreadCase) -> Report {
    use ragc_core::verif_hooks as vh;
    let cap = case.cap as usize;
    let q: Arc<MemoryBoundedQueue<(u8, u32, u32)>> = Arc::new(MemoryBoundedQueue::new(cap));
    vh::start_log();
    let mut producers = Vec::new();
    for p in 0..case.producers as u32 {
        let q = q.clone();
        let seed = case.seed ^ (p as u64 + 1).wrapping_mul(0x9E3779B97F4A7C15);
        let n = case.items_per_producer as u32;
        producers.push(std::thread::spawn(move || {
            vh::event("producer-id", p as u64, 0);
            let mut r = SplitMix::new(seed);
            let mut accepted: Vec<(u8, u32, u32)> = Vec::new();
            for k in 0..n {
                let size = r.below(cap as u64 + 1) as usize;
                let item = (r.below(4) as u8, p, k);
                if r.below(4) == 0 {
                    std::thread::sleep(Duration::from_micros(r.below(200)));
                }
                if q.push(item, size).is_ok() {
                    accepted.push(item);
                }
            }
            accepted
        }));
    }
    let mut consumers = Vec::new();
    for c in 0..case.consumers as u64 {
        let q = q.clone();
        let seed = case.seed ^ (c + 77).wrapping_mul(0xD1B54A32D192ED03);
        consumers.push(std::thread::spawn(move || {
            vh::event("consumer-id", c, 0);
            let mut r = SplitMix::new(seed);
            let mut got = Vec::new();
            while let Some(it) = q.pull() {
                got.push(it);
                if r.below(3) == 0 {
                    std::thread::sleep(Duration::from_micros(r.below(200)));
                }
            }
            got
        }));
    }
    if case.early_close {
        std::thread::sleep(Duration::from_micros(case.seed % 300));
        q.close();
    }
    // join with a stuck check: a thread that stays blocked (e.g. after close) must not hang the checker.
    // Verdict without trusting time alone: the under-lock log shows every unfinished thread's last
    // event is a wait, and the OS shows that no thread of this process ran for 5 s.
    fn join_all<T: Default>(hs: Vec<std::thread::JoinHandle<T>>, what: &str, closed: bool) -> Result<Vec<T>, Report> {
        let start = std::time::Instant::now();
        loop {
            if hs.iter().all(|h| h.is_finished()) {
                return Ok(hs.into_iter().map(|h| h.join().unwrap_or_default()).collect());
            }
            std::thread::sleep(Duration::from_millis(2));
            if start.elapsed() > Duration::from_secs(8) {
                let log = ragc_core::verif_hooks::snapshot_log();
                let mut last: std::collections::BTreeMap<u64, &str> = Default::default();
                for e in &log {
                    last.insert(e.thread, e.kind);
                }
                let waiting: Vec<&str> = last.values().copied().filter(|k| *k == "push-wait" || *k == "pull-wait").collect();
                if !waiting.is_empty() {
                    if let Some(why) = crate::pipecheck::os_stuck_proof() {
                        let n = hs.iter().filter(|h| !h.is_finished()).count();
                        // the blocked threads are left behind (they cannot be cancelled); they hold only their own queue
                        return Err(Report::fail(format!(
                            "{} {} stay blocked{}: last events of the waiting threads {:?}; {}",
                            n,
                            what,
                            if closed { " although the queue has been closed" } else { "" },
                            waiting,
                            why
                        )));
                    }
                }
                if start.elapsed() > Duration::from_secs(180) {
                    return Err(Report::inconclusive(format!("{} did not finish within 180 s but no stuck state could be proved", what)));
                }
            }
        }
    }
    let accepted: Vec<Vec<(u8, u32, u32)>> = match join_all(producers, "producer thread(s)", case.early_close) {
        Ok(v) => v,
        Err(r) => {
            let _ = vh::take_log();
            return r;
        }
    };
    q.close();
    let pulled: Vec<Vec<(u8, u32, u32)>> = match join_all(consumers, "consumer thread(s)", true) {
        Ok(v) => v,
        Err(r) => {
            let _ = vh::take_log();
            return r;
        }
    };
    let log = vh::take_log();
    let mut a: Vec<_> = accepted.iter().flatten().copied().collect();
    let mut b: Vec<_> = pulled.iter().flatten().copied().collect();
    a.sort_unstable();
    b.sort_unstable();
    if a != b {
        return Report::fail(format!("{} items accepted by push, {} returned by pull (multisets differ)", a.len(), b.len()));
    }
    if q.len() != 0 || q.current_size() != 0 {
        return Report::fail("items or bytes left after every consumer saw end-of-stream".to_string());
    }
    // replay the log (written under the queue lock = linearisation order) against the model.
    // Every producer / consumer announced itself with an id event, so a log thread number maps to
    // exactly one of them; its k-th admit / take event is its k-th accepted push / pulled item.
    let mut producer_of: std::collections::BTreeMap<u64, usize> = Default::default();
    let mut consumer_of: std::collections::BTreeMap<u64, usize> = Default::default();
    for e in &log {
        match e.kind {
            "producer-id" => {
                producer_of.insert(e.thread, e.a as usize);
            }
            "consumer-id" => {
                consumer_of.insert(e.thread, e.a as usize);
            }
            _ => {}
        }
    }
    let mut next_admit = vec![0usize; accepted.len()];
    let mut next_take = vec![0usize; pulled.len()];
    let mut model: Vec<((u8, u32, u32), u64)> = Vec::new();
    let mut bytes = 0u64;
    let mut closed = false;
    let (mut pw, mut cw, mut mix) = (false, false, false);
    let mut taken_prios_ok = true;
    let mut take_count = 0usize;
    for e in log.iter() {
        match e.kind {
            "admit" => {
                if closed {
                    return Report::fail("an item was admitted after close (event log)".to_string());
                }
                let Some(&p) = producer_of.get(&e.thread) else {
                    return Report::fail("an admit event comes from a thread that is no producer".to_string());
                };
                let Some(&it) = accepted[p].get(next_admit[p]) else {
                    return Report::fail(format!("producer {} has more admit events than accepted pushes", p));
                };
                next_admit[p] += 1;
                bytes += e.a;
                model.push((it, e.a));
                if bytes > cap as u64 {
                    return Report::fail(format!("{} bytes queued exceed the capacity {} although every item fits", bytes, cap));
                }
                if bytes != e.c {
                    return Report::fail("the queue's byte count differs from the model's".to_string());
                }
                let mut ps: Vec<u8> = model.iter().map(|m| m.0 .0).collect();
                ps.sort_unstable();
                ps.dedup();
                if ps.len() >= 2 {
                    mix = true;
                }
            }
            "take" => {
                take_count += 1;
                let Some(&c) = consumer_of.get(&e.thread) else {
                    return Report::fail("a take event comes from a thread that is no consumer".to_string());
                };
                let Some(&it) = pulled[c].get(next_take[c]) else {
                    return Report::fail(format!("consumer {} has more take events than pulled items", c));
                };
                next_take[c] += 1;
                let Some(pos) = model.iter().position(|m| m.0 == it) else {
                    return Report::fail(format!("pull returned {:?}, which is not queued at that point of the log (never accepted, or returned twice)", it));
                };
                let best = model.iter().map(|m| m.0 .0).max().unwrap();
                if it.0 < best {
                    taken_prios_ok = false;
                }
                let (_, sz) = model.remove(pos);
                if sz != e.a {
                    return Report::fail("size accounted on take differs from the size given on push".to_string());
                }
                bytes -= sz;
                if bytes != e.c {
                    return Report::fail("the queue's byte count differs from the model's after a take".to_string());
                }
            }
            "close" => closed = true,
            "push-wait" => pw = true,
            "pull-wait" => cw = true,
            "pull-none" => {
                if !(closed && model.is_empty()) {
                    return Report::fail("pull reported end-of-stream on an open or non-empty queue".to_string());
                }
            }
            _ => {}
        }
    }
    if !taken_prios_ok {
        return Report::fail("a pull took an item while a strictly higher-priority item stayed queued (event log vs model)".to_string());
    }
    if take_count != b.len() {
        return Report::fail("number of take events differs from the number of pulled items".to_string());
    }
    Report::pass(pw && cw && mix)
        .label_if(pw, "producer-waited")
        .label_if(cw, "consumer-waited")
        .label_if(mix, "mixed-priorities")
        .label_if(case.early_close, "racing-close")
        .label_if(case.producers as usize + case.consumers as usize >= 12, "threads>=12")
}

fn thread_strategy() -> impl Strategy<Value = ThreadCase> {
    (1u32..64, 1u8..9, 1u8..9, 1u8..40, any::<u64>(), prop::bool::weighted(0.25)).prop_map(|(cap, producers, consumers, items_per_producer, seed, early_close)| ThreadCase { cap, producers, consumers, items_per_producer, seed, early_close })
}

// ----------------------------------------------------------------- shuttle --

#[derive(Clone, Debug, Hash, Serialize, Deserialize)]
pub struct ShuttleRun {
    pub scenario: String,
    pub seed: u64,
    pub iters: u64,
    pub pct_depth: Option<u32>,
    /// set in replay files: the failing schedule
    pub schedule: Option<String>,
}

/// run one vshuttle campaign; returns (iterations, nontrivial, classes, samples) or a failure
pub fn shuttle_campaign(ctx: &Ctx, stats: &mut Stats, stage: &str, run: &ShuttleRun) {
    if stats.failures.iter().any(|f| f.stage == stage) {
        return;
    }
    let dir = ctx.scratch("shuttle");
    let out = dir.file("result.json");
    let sched = dir.path.join("sched");
    let mut cmd = Command::new(&ctx.vshuttle);
    cmd.arg(&run.scenario).args(["--iters", &run.iters.to_string(), "--seed", &run.seed.to_string(), "--out"]).arg(&out).arg("--schedule-dir").arg(&sched);
    if let Some(d) = run.pct_depth {
        cmd.args(["--pct", &d.to_string()]);
    }
    let o = match run_cmd(cmd, Duration::from_secs(3600)) {
        Ok(o) => o,
        Err(e) => {
            stats.inconclusive.push(format!("cannot run vshuttle: {}", e));
            return;
        }
    };
    let Some(v) = std::fs::read_to_string(&out).ok().and_then(|t| serde_json::from_str::<Value>(&t).ok()) else {
        stats.inconclusive.push(format!("vshuttle {} wrote no result: {}", run.scenario, o.describe()));
        return;
    };
    let it = v["iterations"].as_u64().unwrap_or(0);
    stats.evaluations += it;
    let st = stats.stages.entry(stage.to_string()).or_default();
    st.evaluations += it;
    st.nontrivial += v["distinct_nontrivial"].as_u64().unwrap_or(0);
    // distinct non-trivial scenarios are counted inside vshuttle; give them distinct hashes here
    for i in 0..v["distinct_nontrivial"].as_u64().unwrap_or(0) {
        stats.nontrivial_hashes.push(crate::util::mix(crate::util::str_seed(stage) ^ run.seed, i));
    }
    for k in ["with_producer_wait", "with_consumer_wait", "with_refused_push", "with_mixed_priorities", "with_racing_close", "with_sync_rounds"] {
        let n = v[k].as_u64().unwrap_or(0);
        if n > 0 {
            *stats.labels.entry(format!("{}:{}", stage, k)).or_insert(0) += n;
        }
    }
    if let Some(samples) = v["samples"].as_array() {
        for s in samples.iter().take(2) {
            if stats.samples.iter().filter(|x| x["stage"] == stage).count() < 2 {
                stats.samples.push(json!({"stage": stage, "case": s, "labels": ["schedule-explored"]}));
            }
        }
    }
    stats.add_extra_count("schedules", it);
    if let Some(f) = v["failure"].as_str() {
        let schedule = v["schedule_file"].as_str().and_then(|p| std::fs::read_to_string(p).ok());
        let mut r = run.clone();
        r.schedule = schedule;
        let case = serde_json::to_value(&r).unwrap();
        let msg = format!("{} scenario, schedule found after {} iterations: {}", run.scenario, it, f.lines().next().unwrap_or(f));
        let rep = Report::fail(msg);
        record(ctx, stats, stage, &r, rep);
        let _ = case;
    }
}

pub fn shuttle_replay(ctx: &Ctx, run: &ShuttleRun) -> Report {
    let Some(s) = &run.schedule else { return Report::fail("replay file holds no schedule".to_string()) };
    let dir = ctx.scratch("shuttle-replay");
    let f = dir.file("schedule.txt");
    let _ = std::fs::write(&f, s);
    let mut cmd = Command::new(&ctx.vshuttle);
    cmd.arg(&run.scenario).arg("--replay").arg(&f);
    match run_cmd(cmd, Duration::from_secs(600)) {
        Ok(o) if o.ok() => Report::pass(true),
        Ok(o) => Report::fail(String::from_utf8_lossy(&o.stdout).lines().last().unwrap_or("schedule fails").to_string()),
        Err(e) => Report::inconclusive(format!("cannot run vshuttle: {}", e)),
    }
}

pub fn run(ctx: &Ctx, stats: &mut Stats) {
    let n = ctx.tier.pick(1_000_000, 10_000_000);
    run_prop(ctx, stats, "sequential", n, seq_strategy(), &check_seq);
    let nt = ctx.tier.pick(960, 20_000);
    // a stuck real-thread case costs ~13 s per evaluation (8 s grace + the 5 s OS-level proof): small shrink budget
    let mut ct = ctx.clone();
    ct.shrink_iters = 16;
    run_prop(&ct, stats, "threads", nt, thread_strategy(), &check_threads);
    if !ctx.vshuttle.exists() {
        stats.inconclusive.push("vshuttle binary missing".into());
        return;
    }
    let it = ctx.tier.pick(150_000u64, 3_000_000u64);
    let seed = ctx.stage_seed("shuttle");
    shuttle_campaign(ctx, stats, "shuttle-random", &ShuttleRun { scenario: "queue".into(), seed, iters: it, pct_depth: None, schedule: None });
    for d in [2u32, 3, 4] {
        shuttle_campaign(ctx, stats, "shuttle-pct", &ShuttleRun { scenario: "queue".into(), seed: seed ^ d as u64, iters: it / 4, pct_depth: Some(d), schedule: None });
    }
}

pub fn replay(ctx: &Ctx, stage: &str, case: &Value) -> Report {
    match stage {
        "sequential" => from_case::<SeqCase>(case).map(|c| check_seq(&c)).unwrap_or_else(Report::fail),
        "threads" => from_case::<ThreadCase>(case).map(|c| check_threads(&c)).unwrap_or_else(Report::fail),
        _ => from_case::<ShuttleRun>(case).map(|c| shuttle_replay(ctx, &c)).unwrap_or_else(Report::fail),
    }
}

pub const INFO: PropInfo = PropInfo {
    id: "C06",
    level: "exploration",
    rule: "three legs. (1) sequential model-based: operation sequences (0..60 ops over push / try_push / pull / try_pull / close / observers, capacity 1..39, sizes 0..cap+1, priorities 0..3; blocking calls only where they cannot block) against a multiset model after every step. (2) schedules: the REAL queue source compiled against shuttle (std::sync switched to shuttle::sync by cfg) explored with the random scheduler and PCT depth 2/3/4 from fixed seeds; scenario drawn inside the schedule: capacity 1..10, 1..3 producers (blocking and try pushes), 1..3 consumers pulling to end-of-stream, 1..8 items of size 0..cap, a close racing with the producers in 1/4 of the cases; oracles: accepted multiset == pulled multiset, nothing left, the under-lock event log replayed against the sequential model (every take is a maximal element, bytes <= capacity, no admit after close, end-of-stream only when closed and empty), shuttle's deadlock detector (nobody stays blocked after close). (3) real OS threads: 1..8 producers x 1..8 consumers, up to 39 items each, seeded micro-sleeps, same multiset and log-replay oracles. Non-trivial = a history with a producer wait, a consumer wait and two priorities queued at once (legs 2,3) / mixed priorities and a would-block (leg 1); distinct = distinct scenario.",
    assumptions: &["every pushed item individually fits the capacity in the concurrent legs (the statement's precondition)", "leg 3 samples OS schedules; only leg 2 owns the scheduler, and it is randomised, not exhaustive"],
    needs_cli: false,
    needs_checked: false,
    max_shards: 16,
    shrink_iters: 300,
    watchdog_s: (1800, 14400),
    run,
    replay,
};
