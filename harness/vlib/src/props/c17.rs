//! C17 — CLI extraction composes and exit codes tell the truth.

use crate::engine::*;
use crate::fasta;
use crate::gen::{self, Collection, GenCfg};
use crate::pipeline::{self, run_cmd, CmdOut};
use proptest::prelude::*;
use serde::{Deserialize, Serialize};
use serde_json::Value;
use std::process::Command;
use std::time::Duration;

#[derive(Clone, Debug, Hash, Serialize, Deserialize)]
pub struct CliCase {
    pub collection: Collection,
    /// extra create flags: subset of batch / adaptive / concatenated / verbose / compression
    pub batch: bool,
    pub adaptive: bool,
    pub concatenated: bool,
    pub verbosity: u8,
    pub compression: Option<u8>,
    /// request list as indices into the sample list (with repeats)
    pub request: Vec<u8>,
    /// prefix taken from this sample's name, this many characters
    pub prefix_of: u8,
    pub prefix_len: u8,
}

const F_BATCH: &str = "C17-batch-noop";
const F_MULTI: &str = "C17-getset-multi-truncates";

fn ragc(ctx: &Ctx, args: &[String]) -> Result<CmdOut, String> {
    let mut cmd = Command::new(&ctx.ragc);
    cmd.args(args);
    let o = run_cmd(cmd, Duration::from_secs(120)).map_err(|e| format!("cannot run ragc: {}", e))?;
    if o.timed_out {
        return Err("ragc timed out".into());
    }
    Ok(o)
}

pub fn check_in(ctx: &Ctx, case: &CliCase) -> Report {
    let c = &case.collection;
    let dir = ctx.scratch("c17");
    let inputs = match fasta::write_inputs(c, &dir.path.join("in")) {
        Ok(i) => i,
        Err(e) => return Report::inconclusive(format!("harness: cannot write inputs: {}", e)),
    };
    let archive = dir.file("out.agc");
    let a = archive.to_string_lossy().to_string();
    let mut args = pipeline::create_args(&c.params, &archive, &inputs);
    // replace "-v 0" by the generated verbosity
    if let Some(i) = args.iter().position(|x| x == "-v") {
        args[i + 1] = case.verbosity.to_string();
    }
    let mut extra: Vec<String> = Vec::new();
    if case.batch {
        extra.push("--batch".into());
    }
    if case.adaptive {
        extra.push("--adaptive".into());
    }
    if case.concatenated {
        extra.push("--concatenated".into());
    }
    if let Some(l) = case.compression {
        extra.push("-c".into());
        extra.push(l.to_string());
    }
    // flags go before the positional inputs
    let n_in = inputs.len();
    let pos = args.len() - n_in;
    for (i, e) in extra.iter().enumerate() {
        args.insert(pos + i, e.clone());
    }
    let unsupported = case.batch || case.adaptive || case.concatenated;
    let mut rep = Report::pass(false)
        .label_if(case.batch, "flag:--batch")
        .label_if(case.adaptive, "flag:--adaptive")
        .label_if(case.concatenated, "flag:--concatenated")
        .label_if(case.verbosity > 0, "flag:-v>0")
        .label_if(case.compression.is_some(), "flag:-c")
        .label(if c.params.single_file { "mode:single-file" } else { "mode:multi-file" });
    let created = match ragc(ctx, &args) {
        Ok(o) => o,
        Err(e) => return Report::inconclusive(e),
    };
    let names: Vec<String> = c.samples.iter().map(|s| s.name.clone()).collect();
    if created.code == Some(0) {
        // exit 0 => the archive exists and lists every input sample
        let listed = if archive.exists() {
            match ragc(ctx, &["listset".into(), a.clone()]) {
                Ok(o) if o.ok() => Some(String::from_utf8_lossy(&o.stdout).lines().map(|s| s.to_string()).collect::<Vec<_>>()),
                Ok(_) => None,
                Err(e) => return Report::inconclusive(e),
            }
        } else {
            None
        };
        if listed.as_ref() != Some(&names) {
            let what = format!("`ragc {}` exited 0 but {}", extra.join(" "), if archive.exists() { format!("listset gives {:?} instead of {:?}", listed.as_ref().map(|v| v.iter().take(5).collect::<Vec<_>>()), names.iter().take(5).collect::<Vec<_>>()) } else { "no archive was written".to_string() });
            if case.batch && !archive.exists() && ctx.known.is_open(F_BATCH) {
                rep.verdict = Verdict::Known { id: F_BATCH.into(), what: ctx.known.what(F_BATCH) };
                rep.nontrivial = true;
                return rep;
            }
            return Report { verdict: Verdict::Fail(format!("create {}", what)), ..rep };
        }
        rep = rep.label("create-ok");
    } else {
        rep = rep.label(if unsupported { "unsupported-flags-rejected" } else { "create-failed" });
        if created.signal.is_some() {
            return Report { verdict: Verdict::Fail(format!("ragc create was killed by a signal: {}", created.describe())), ..rep };
        }
        rep.nontrivial = unsupported;
        return rep;
    }

    // single-sample extractions are the reference
    let mut singles: Vec<Vec<u8>> = Vec::new();
    for n in &names {
        match ragc(ctx, &["getset".into(), a.clone(), n.clone()]) {
            Ok(o) if o.ok() => singles.push(o.stdout),
            Ok(o) => return Report { verdict: Verdict::Fail(format!("getset of listed sample {:?} failed: {}", n, o.describe())), ..rep },
            Err(e) => return Report::inconclusive(e),
        }
    }
    let req: Vec<usize> = case.request.iter().map(|&i| i as usize % names.len()).collect();
    let want: Vec<u8> = req.iter().flat_map(|&i| singles[i].iter().copied()).collect();
    let distinct = {
        let mut d = req.clone();
        d.sort_unstable();
        d.dedup();
        d.len()
    };
    rep = rep.label_if(distinct >= 2, "request>=2-distinct-samples").label_if(req.len() > distinct, "request-with-repeats");
    let mut ga: Vec<String> = vec!["getset".into(), a.clone()];
    ga.extend(req.iter().map(|&i| names[i].clone()));
    let multi_fail = |rep: &Report, what: String| -> Report {
        if distinct >= 2 && ctx.known.is_open(F_MULTI) {
            let mut r = rep.clone();
            r.verdict = Verdict::Known { id: F_MULTI.into(), what: ctx.known.what(F_MULTI) };
            r.nontrivial = true;
            return r;
        }
        Report { verdict: Verdict::Fail(what), ..rep.clone() }
    };
    match ragc(ctx, &ga) {
        Ok(o) if o.ok() => {
            if o.stdout != want {
                return multi_fail(&rep, format!("getset {:?}: stdout has {} bytes, the concatenation of the single-sample extractions has {}", &ga[2..], o.stdout.len(), want.len()));
            }
        }
        Ok(o) => return Report { verdict: Verdict::Fail(format!("getset {:?} failed: {}", &ga[2..], o.describe())), ..rep },
        Err(e) => return Report::inconclusive(e),
    }
    let outf = dir.file("extract.fa");
    // the -o file already exists with other content (a re-run, or another extraction into the same
    // name): the result must still be exactly the requested records
    let _ = std::fs::write(&outf, b">left-over-record\nACGTACGT\n");
    let mut go = ga.clone();
    go.push("-o".into());
    go.push(outf.to_string_lossy().to_string());
    match ragc(ctx, &go) {
        Ok(o) if o.ok() => {
            let got = std::fs::read(&outf).unwrap_or_default();
            if got != want {
                return multi_fail(&rep, format!("getset {:?} -o file: file has {} bytes, the concatenation of the single-sample extractions has {}", &ga[2..], got.len(), want.len()));
            }
        }
        Ok(o) => return Report { verdict: Verdict::Fail(format!("getset -o failed: {}", o.describe())), ..rep },
        Err(e) => return Report::inconclusive(e),
    }
    // prefix: all matching samples in archive order
    let pn = &names[case.prefix_of as usize % names.len()];
    let plen = 1 + case.prefix_len as usize % pn.len();
    let prefix = &pn[..plen];
    let matching: Vec<usize> = (0..names.len()).filter(|&i| names[i].starts_with(prefix)).collect();
    let wantp: Vec<u8> = matching.iter().flat_map(|&i| singles[i].iter().copied()).collect();
    rep = rep.label_if(matching.len() >= 2, "prefix-matches>=2");
    for to_file in [false, true] {
        let mut gp: Vec<String> = vec!["getset".into(), a.clone(), "-p".into(), prefix.to_string()];
        let pf = dir.file("prefix.fa");
        if to_file {
            let _ = std::fs::write(&pf, b">left-over-record\nACGTACGT\n");
            gp.push("-o".into());
            gp.push(pf.to_string_lossy().to_string());
        }
        match ragc(ctx, &gp) {
            Ok(o) if o.ok() => {
                let got = if to_file { std::fs::read(&pf).unwrap_or_default() } else { o.stdout };
                if got != wantp {
                    let msg = format!("getset -p {:?}{}: {} bytes, the {} matching samples concatenated in archive order have {}", prefix, if to_file { " -o file" } else { "" }, got.len(), matching.len(), wantp.len());
                    if matching.len() >= 2 && ctx.known.is_open(F_MULTI) {
                        rep.verdict = Verdict::Known { id: F_MULTI.into(), what: ctx.known.what(F_MULTI) };
                        rep.nontrivial = true;
                        return rep;
                    }
                    return Report { verdict: Verdict::Fail(msg), ..rep };
                }
            }
            Ok(o) => return Report { verdict: Verdict::Fail(format!("getset -p {:?} failed: {}", prefix, o.describe())), ..rep },
            Err(e) => return Report::inconclusive(e),
        }
    }
    // every failure must give a non-zero exit status
    let half = dir.file("half.agc");
    let bytes = std::fs::read(&archive).unwrap_or_default();
    let _ = std::fs::write(&half, &bytes[..bytes.len() / 2]);
    let garbage = dir.file("garbage.agc");
    let _ = std::fs::write(&garbage, b"this is not an archive, but it is longer than eight bytes");
    let missing = dir.file("does-not-exist.agc").to_string_lossy().to_string();
    let dirpath = dir.path.to_string_lossy().to_string();
    let n0 = names[0].clone();
    let nl = names[names.len() - 1].clone();
    let failing: Vec<(&str, Vec<String>)> = vec![
        ("unknown sample alone", vec!["getset".into(), a.clone(), "no-such-sample".into()]),
        ("unknown sample first", vec!["getset".into(), a.clone(), "no-such-sample".into(), n0.clone()]),
        ("unknown sample last", vec!["getset".into(), a.clone(), nl.clone(), "no-such-sample".into()]),
        ("unknown sample -o", vec!["getset".into(), a.clone(), n0.clone(), "no-such-sample".into(), "-o".into(), dir.file("x.fa").to_string_lossy().to_string()]),
        ("prefix without match", vec!["getset".into(), a.clone(), "-p".into(), "zzz-no-such-prefix".into()]),
        ("neither sample nor prefix", vec!["getset".into(), a.clone()]),
        ("missing archive", vec!["getset".into(), missing.clone(), n0.clone()]),
        ("missing archive (listset)", vec!["listset".into(), missing.clone()]),
        ("truncated archive", vec!["getset".into(), half.to_string_lossy().to_string(), n0.clone()]),
        ("truncated archive (listset)", vec!["listset".into(), half.to_string_lossy().to_string()]),
        ("garbage file", vec!["listset".into(), garbage.to_string_lossy().to_string()]),
        ("directory as archive", vec!["getset".into(), dirpath.clone(), n0.clone()]),
        ("listctg unknown sample", vec!["listctg".into(), a.clone(), "no-such-sample".into()]),
        ("listctg known then unknown", vec!["listctg".into(), a.clone(), n0.clone(), "no-such-sample".into()]),
        ("ctglen unknown contig", vec!["ctglen".into(), a.clone(), "-s".into(), n0.clone(), "-c".into(), "no-such-contig".into()]),
        ("getrange unknown sample", vec!["getrange".into(), a.clone(), "-s".into(), "no-such-sample".into(), "-c".into(), "x".into(), "--start".into(), "0".into(), "--end".into(), "5".into()]),
        ("create without readable input", vec!["create".into(), "-o".into(), dir.file("y.agc").to_string_lossy().to_string(), "-v".into(), "0".into(), missing.clone()]),
        ("create into a missing directory", vec!["create".into(), "-o".into(), dir.path.join("no/such/dir/y.agc").to_string_lossy().to_string(), "-v".into(), "0".into(), inputs[0].to_string_lossy().to_string()]),
    ];
    for (what, fa) in &failing {
        match ragc(ctx, fa) {
            Ok(o) => {
                if o.code == Some(0) {
                    return Report { verdict: Verdict::Fail(format!("failure request '{}' ({:?}) exited 0", what, &fa[..fa.len().min(4)])), ..rep };
                }
                if o.panicked() || o.signal.is_some() {
                    rep = rep.label("failure-reported-by-panic");
                }
            }
            Err(e) => return Report::inconclusive(e),
        }
    }
    rep.nontrivial = distinct >= 2 || unsupported || case.compression.is_some() || case.verbosity > 0;
    rep.label("failure-requests-checked")
}

fn strat() -> impl Strategy<Value = CliCase> {
    let cfg = GenCfg { max_contig: 1500, max_samples: 5, many_samples_pct: 0, single_file: None, vary_presentation: false, swarm_pct: 0 };
    (
        gen::collection_strategy(cfg),
        prop::bool::weighted(0.12),
        prop::bool::weighted(0.08),
        prop::bool::weighted(0.08),
        prop_oneof![3 => Just(0u8), 1 => 1u8..3],
        prop::option::weighted(0.3, prop_oneof![Just(1u8), Just(9u8), Just(17u8), Just(19u8), 1u8..20]),
        prop::collection::vec(any::<u8>(), 1..6),
        any::<u8>(),
        // half of the prefixes are the first character only (every generated name starts with 's': all samples match)
        prop_oneof![1 => Just(0u8), 1 => any::<u8>()],
    )
        .prop_map(|(collection, batch, adaptive, concatenated, verbosity, compression, request, prefix_of, prefix_len)| CliCase { collection, batch, adaptive, concatenated, verbosity, compression, request, prefix_of, prefix_len })
}

pub fn run(ctx: &Ctx, stats: &mut Stats) {
    let c2 = ctx.clone();
    let n = ctx.tier.pick(240, 4_000);
    run_prop(ctx, stats, "cli", n, strat(), &move |c: &CliCase| check_in(&c2, c));
}

pub fn replay(ctx: &Ctx, _stage: &str, case: &Value) -> Report {
    match from_case::<CliCase>(case) {
        Ok(c) => check_in(ctx, &c),
        Err(e) => Report::fail(e),
    }
}

pub const INFO: PropInfo = PropInfo {
    id: "C17",
    level: "exploration",
    rule: "cases = a small generated collection created by `ragc create` with generated flags (-k -s -m -l -t --queue-capacity --fallback-frac from the parameter generator, -v 0..2, -c 1..19, and the unsupported --batch / --adaptive / --concatenated), then: request lists of 1..5 existing sample names with repeats and a prefix of a random sample name (1..n characters, so 1..n samples match), each on stdout and with -o file (the -o file exists beforehand with other content); 18 failure requests (unknown sample alone / first / last / with -o, prefix without match, neither sample nor prefix, missing / truncated / garbage / directory archive for getset and listset, listctg / ctglen / getrange on unknown names, create with an unreadable input, create into a missing directory). Oracles: create exit 0 => archive exists and listset prints every input sample in order; unsupported flags => exit != 0 or such an archive; multi-sample and prefix output == concatenation of the single-sample extractions in request (resp. archive) order, byte for byte; every failure request exits non-zero. Non-trivial = request with >= 2 distinct samples, or a create with a non-default / unsupported flag; distinct = distinct case.",
    assumptions: &["single-sample `getset` is the reference for composition (its content is C01's subject)"],
    needs_cli: true,
    needs_checked: false,
    max_shards: 16,
    shrink_iters: 40,
    watchdog_s: (1800, 14400),
    run,
    replay,
};
