//! C14 — a partially written archive is rejected cleanly (every strict prefix).

use crate::archive_case::*;
use crate::engine::*;
use crate::gen::{self, Collection, GenCfg};
use crate::pipeline::run_cmd;
use serde::{Deserialize, Serialize};
use serde_json::Value;
use std::path::Path;
use std::process::Command;
use std::time::Duration;

#[derive(Clone, Debug, Hash, Serialize, Deserialize)]
pub struct PrefixCase {
    pub collection: Collection,
    /// check only these prefix lengths (replay); None = all
    pub only: Option<Vec<u64>>,
}

struct Sweep {
    tried: u64,
    classes: [u64; 4],
    archive_open_ok: u64,
    violations: Vec<(u64, String)>,
    inconclusive: Option<String>,
}

/// run the prefix sweep [0, len) with one build of the harness; restarts the child after a crash
fn sweep(exe: &Path, archive: &Path, dir: &Path, len: u64, stride: u64, which: &str, only: &Option<Vec<u64>>) -> Sweep {
    let mut s = Sweep { tried: 0, classes: [0; 4], archive_open_ok: 0, violations: Vec::new(), inconclusive: None };
    let work = dir.join(format!("work-{}.agc", which));
    let progress = dir.join(format!("progress-{}", which));
    let out = dir.join(format!("out-{}.json", which));
    let ranges: Vec<(u64, u64)> = match only {
        Some(v) => v.iter().filter(|&&n| n < len).map(|&n| (n, n)).collect(),
        None => {
            if len == 0 {
                vec![]
            } else {
                vec![(len - 1, 0)]
            }
        }
    };
    for (mut from, to) in ranges {
        let mut restarts = 0;
        loop {
            if std::fs::copy(archive, &work).is_err() {
                s.inconclusive = Some("cannot copy the archive".into());
                return s;
            }
            let _ = std::fs::remove_file(&out);
            let mut cmd = Command::new(exe);
            cmd.args(["child", "prefixes", "--work"]).arg(&work).args(["--from", &from.to_string(), "--to", &to.to_string(), "--stride", &stride.to_string(), "--dense-tail", "4096", "--full-len", &len.to_string(), "--progress"]).arg(&progress).arg("--out").arg(&out);
            let o = match run_cmd(cmd, Duration::from_secs(1200)) {
                Ok(o) => o,
                Err(e) => {
                    s.inconclusive = Some(format!("cannot run the prefix child: {}", e));
                    return s;
                }
            };
            if o.timed_out {
                s.inconclusive = Some(format!("prefix sweep ({}) exceeded its watchdog", which));
                return s;
            }
            if o.ok() {
                if let Some(v) = std::fs::read_to_string(&out).ok().and_then(|t| serde_json::from_str::<Value>(&t).ok()) {
                    s.tried += v["tried"].as_u64().unwrap_or(0);
                    s.classes[0] += v["class_ge_2_63"].as_u64().unwrap_or(0);
                    s.classes[1] += v["class_gt_file"].as_u64().unwrap_or(0);
                    s.classes[2] += v["class_le_file"].as_u64().unwrap_or(0);
                    s.classes[3] += v["shorter_than_8"].as_u64().unwrap_or(0);
                    s.archive_open_ok += v["archive_open_ok"].as_u64().unwrap_or(0);
                    for x in v["violations"].as_array().cloned().unwrap_or_default() {
                        s.violations.push((x["prefix"].as_u64().unwrap_or(0), x["what"].as_str().unwrap_or("").to_string()));
                    }
                } else {
                    s.inconclusive = Some("prefix child wrote no result".into());
                }
                break;
            }
            // the child died: attribute it to the prefix it was working on, continue below it
            let at: u64 = std::fs::read_to_string(&progress).ok().and_then(|t| t.trim().parse().ok()).unwrap_or(from);
            s.violations.push((at, format!("process {} while opening the prefix ({})", o.describe(), which)));
            restarts += 1;
            if at == 0 || at <= to || restarts > 8 {
                break;
            }
            from = at - 1;
        }
    }
    s
}

pub fn check_in(ctx: &Ctx, case: &PrefixCase, counters: &std::cell::Cell<[u64; 6]>) -> Report {
    let c = &case.collection;
    let e = match examine(ctx, c, "c14") {
        Outcome::Ready(e) => e,
        Outcome::NotCreated(r) => return r,
    };
    let mut rep = Report::pass(false);
    rep.labels = e.labels.iter().filter(|l| l.starts_with("mode:") || l.starts_with("samples")).copied().collect();
    let len = e.bytes.len() as u64;
    let stride = if case.only.is_some() || len <= 200_000 { 1 } else { 8 };
    let exe = std::env::current_exe().expect("current exe");
    let mut all: Vec<(u64, String)> = Vec::new();
    let mut c6 = counters.get();
    for (which, bin) in [("release", exe.as_path()), ("checked", ctx.vcheck_checked.as_path())] {
        if !bin.exists() {
            return Report::inconclusive(format!("the {} build of the harness is missing: {}", which, bin.display()));
        }
        let s = sweep(bin, &e.built.archive, &e.built.dir.path, len, stride, which, &case.only);
        if let Some(m) = s.inconclusive {
            return Report::inconclusive(m);
        }
        c6[0] += s.tried;
        c6[1] += s.classes[0];
        c6[2] += s.classes[1];
        c6[3] += s.classes[2];
        c6[4] += s.classes[3];
        c6[5] += s.archive_open_ok;
        if s.classes[0] > 0 && s.classes[1] > 0 {
            rep.nontrivial = true;
        }
        for (n, w) in s.violations {
            all.push((n, format!("[{} build] prefix {} of {}: {}", which, n, len, w)));
        }
    }
    counters.set(c6);
    rep = rep.label_if(stride == 1, "every-prefix").label_if(stride > 1, "strided-prefixes").label_if(len > 65536, "archive>64k");
    if !all.is_empty() {
        all.sort();
        let n = all.len();
        let first = &all[0];
        let distinct: std::collections::BTreeSet<String> = all.iter().map(|(_, w)| w.split(": ").skip(1).collect::<Vec<_>>().join(": ").chars().take(90).collect()).collect();
        rep.verdict = Verdict::Fail(format!("{} prefix(es) not rejected cleanly; first: {}; kinds: {:?}", n, first.1, distinct.iter().take(4).collect::<Vec<_>>()));
    }
    rep
}

fn cfg() -> GenCfg {
    GenCfg { max_contig: 12000, max_samples: 6, many_samples_pct: 6, single_file: None, vary_presentation: false }
}

pub fn run(ctx: &Ctx, stats: &mut Stats) {
    use proptest::prelude::*;
    let c2 = ctx.clone();
    let counters = std::cell::Cell::new([0u64; 6]);
    let n = ctx.tier.pick(32, 192);
    {
        let check = |c: &PrefixCase| check_in(&c2, c, &counters);
        run_prop(ctx, stats, "archives", n, gen::collection_strategy(cfg()).prop_map(|collection| PrefixCase { collection, only: None }), &check);
    }
    let c = counters.get();
    stats.add_extra_count("prefix_opens", c[0]);
    stats.add_extra_count("prefix_tail_ge_2^63", c[1]);
    stats.add_extra_count("prefix_tail_gt_file", c[2]);
    stats.add_extra_count("prefix_tail_le_file", c[3]);
    stats.add_extra_count("prefix_shorter_than_8", c[4]);
    stats.add_extra_count("container_open_accepted_prefix", c[5]);
}

pub fn replay(ctx: &Ctx, _stage: &str, case: &Value) -> Report {
    let counters = std::cell::Cell::new([0u64; 6]);
    match from_case::<PrefixCase>(case) {
        Ok(c) => check_in(ctx, &c, &counters),
        Err(e) => Report::fail(e),
    }
}

pub const INFO: PropInfo = PropInfo {
    id: "C14",
    level: "fault_enumeration",
    rule: "cases = archives created by `ragc create` from generated collections (16 quick / 96 thorough; both modes; ~3..300 kB); for each archive EVERY strict prefix length n in 0..len-1 (archives > 200 kB: every n within 4 kB of either end plus every 8th in between) is produced by truncating a copy in place and opened with Archive::open and Decompressor::open in a child process under RLIMIT_AS = 4 GiB, once with the release build of the harness and once with the overflow-checked build. Oracle: Decompressor::open returns Err (a returned handle is a violation whether or not samples are readable), no panic, the child does not die (abort / signal = e.g. a garbage-sized allocation), within the watchdog. The number of opens and the distribution of the prefix's last 8 bytes read as a length (>= 2^63, > file size, <= file size, file shorter than 8 bytes) are reported. Non-trivial archive = its prefixes cover both out-of-range length classes (>= 2^63 and > file size; in-range values need five zero bytes and are rare); distinct = distinct collection.",
    assumptions: &["the file is written front to back in one pass at finalize, so strict prefixes are exactly the states a crash / kill / full disk / interrupted copy leaves", "Archive::open alone accepting a prefix is counted (container_open_accepted_prefix) but only a Decompressor handle is a violation"],
    needs_cli: true,
    needs_checked: true,
    max_shards: 16,
    shrink_iters: 0,
    watchdog_s: (2400, 14400),
    run,
    replay,
};
