//! C14 — a partially written archive is rejected cleanly (every strict prefix).

use crate::archive_case::*;
use crate::engine::*;
use crate::gen::{self, Collection, GenCfg};
use crate::pipeline::run_cmd;
use serde::{Deserialize, Serialize};
use serde_json::Value;
use std::path::Path;
use std::process::Command;
use std::time::Duration;

#[derive(Clone, Debug, Hash, Serialize, Deserialize)]
pub struct PrefixCase {
    pub collection: Collection,
    /// check only these prefix lengths (replay); None = all
    pub only: Option<Vec<u64>>,
}

struct Sweep {
    tried: u64,
    classes: [u64; 4],
    archive_open_ok: u64,
    violations: Vec<(u64, String)>,
    inconclusive: Option<String>,
}

/// run the prefix sweep [0, len) with one build of the harness; restarts the child after a crash
fn sweep(exe: &Path, archive: &Path, dir: &Path, len: u64, stride: u64, which: &str, only: &Option<Vec<u64>>) -> Sweep {
    let mut s = Sweep { tried: 0, classes: [0; 4], archive_open_ok: 0, violations: Vec::new(), inconclusive: None };
    let work = dir.join(format!("work-{}.agc", which));
    let progress = dir.join(format!("progress-{}", which));
    let out = dir.join(format!("out-{}.json", which));
    let ranges: Vec<(u64, u64)> = match only {
        Some(v) => v.iter().filter(|&&n| n < len).map(|&n| (n, n)).collect(),
        None => {
            if len == 0 {
                vec![]
            } else {
                vec![(len - 1, 0)]
            }
        }
    };
    for (mut from, to) in ranges {
        let mut restarts = 0;
        loop {
            if std::fs::copy(archive, &work).is_err() {
                s.inconclusive = Some("cannot copy the archive".into());
                return s;
            }
            let _ = std::fs::remove_file(&out);
            let mut cmd = Command::new(exe);
            cmd.args(["child", "prefixes", "--work"]).arg(&work).args(["--from", &from.to_string(), "--to", &to.to_string(), "--stride", &stride.to_string(), "--dense-tail", "4096", "--full-len", &len.to_string(), "--progress"]).arg(&progress).arg("--out").arg(&out);
            let o = match run_cmd(cmd, Duration::from_secs(1200)) {
                Ok(o) => o,
                Err(e) => {
                    s.inconclusive = Some(format!("cannot run the prefix child: {}", e));
                    return s;
                }
            };
            if o.timed_out {
                s.inconclusive = Some(format!("prefix sweep ({}) exceeded its watchdog", which));
                return s;
            }
            if o.ok() {
                if let Some(v) = std::fs::read_to_string(&out).ok().and_then(|t| serde_json::from_str::<Value>(&t).ok()) {
                    s.tried += v["tried"].as_u64().unwrap_or(0);
                    s.classes[0] += v["class_ge_2_63"].as_u64().unwrap_or(0);
                    s.classes[1] += v["class_gt_file"].as_u64().unwrap_or(0);
                    s.classes[2] += v["class_le_file"].as_u64().unwrap_or(0);
                    s.classes[3] += v["shorter_than_8"].as_u64().unwrap_or(0);
                    s.archive_open_ok += v["archive_open_ok"].as_u64().unwrap_or(0);
                    for x in v["violations"].as_array().cloned().unwrap_or_default() {
                        s.violations.push((x["prefix"].as_u64().unwrap_or(0), x["what"].as_str().unwrap_or("").to_string()));
                    }
                } else {
                    s.inconclusive = Some("prefix child wrote no result".into());
                }
                break;
            }
            // the child died: attribute it to the prefix it was working on, continue below it
            let at: u64 = std::fs::read_to_string(&progress).ok().and_then(|t| t.trim().parse().ok()).unwrap_or(from);
            s.violations.push((at, format!("process {} while opening the prefix ({})", o.describe(), which)));
            restarts += 1;
            if at == 0 || at <= to || restarts > 8 {
                break;
            }
            from = at - 1;
        }
    }
    s
}

pub fn check_in(ctx: &Ctx, case: &PrefixCase, counters: &std::cell::Cell<[u64; 6]>) -> Report {
    let c = &case.collection;
    let e = match examine(ctx, c, "c14") {
        Outcome::Ready(e) => e,
        Outcome::NotCreated(r) => return r,
    };
    let mut rep = Report::pass(false);
    rep.labels = e.labels.iter().filter(|l| l.starts_with("mode:") || l.starts_with("samples")).copied().collect();
    let len = e.bytes.len() as u64;
    let stride = if case.only.is_some() || len <= 200_000 { 1 } else { 8 };
    let exe = std::env::current_exe().expect("current exe");
    let mut all: Vec<(u64, String)> = Vec::new();
    let mut c6 = counters.get();
    for (which, bin) in [("release", exe.as_path()), ("checked", ctx.vcheck_checked.as_path())] {
        if !bin.exists() {
            return Report::inconclusive(format!("the {} build of the harness is missing: {}", which, bin.display()));
        }
        let s = sweep(bin, &e.built.archive, &e.built.dir.path, len, stride, which, &case.only);
        if let Some(m) = s.inconclusive {
            return Report::inconclusive(m);
        }
        c6[0] += s.tried;
        c6[1] += s.classes[0];
        c6[2] += s.classes[1];
        c6[3] += s.classes[2];
        c6[4] += s.classes[3];
        c6[5] += s.archive_open_ok;
        if s.classes[0] > 0 && s.classes[1] > 0 {
            rep.nontrivial = true;
        }
        for (n, w) in s.violations {
            all.push((n, format!("[{} build] prefix {} of {}: {}", which, n, len, w)));
        }
    }
    counters.set(c6);
    rep = rep.label_if(stride == 1, "every-prefix").label_if(stride > 1, "strided-prefixes").label_if(len > 65536, "archive>64k");
    if !all.is_empty() {
        all.sort();
        let n = all.len();
        let first = &all[0];
        let distinct: std::collections::BTreeSet<String> = all.iter().map(|(_, w)| w.split(": ").skip(1).collect::<Vec<_>>().join(": ").chars().take(90).collect()).collect();
        rep.verdict = Verdict::Fail(format!("{} prefix(es) not rejected cleanly; first: {}; kinds: {:?}", n, first.1, distinct.iter().take(4).collect::<Vec<_>>()));
    }
    rep
}


// ------------------------------------------------------------------ crafted containers --
// The interesting prefixes are those whose last 8 bytes, read as the footer length, fit into the
// file: the reader then parses whatever part data precedes them as a stream directory. In archives
// of random sequence that needs ~6 zero bytes in a row in compressed data (38 of 5*10^5 prefixes
// in a quick run). This stage reaches the region by construction: containers written with ragc's
// own Archive writer whose part payloads are built from chunks that make such prefixes frequent
// (runs of 0x00 and 0xFF, little-endian back-pointers into earlier data, count bytes 0xFF followed
// by >= 255 bytes, varint-looking byte groups). Every byte string can occur in a part of a real
// archive (ZSTD frames, stored-raw tuple-packed segments: poly-A packs to 0x00, poly-T to 0xFF), so
// these are valid archive files in the sense of the statement.

#[derive(Clone, Debug, Hash, Serialize, Deserialize)]
pub enum Chunk {
    Rand { seed: u64, len: u16 },
    Zero(u8),
    Ff(u8),
    /// little-endian u64 pointing back into the bytes written so far (fraction / 65536 of them), minus `sub`
    Back { frac: u16, sub: u8 },
    /// 0xFF count byte followed by this many random bytes
    CountFf { seed: u64, len: u16 },
    /// groups that look like directory varints: (number of bytes 0..=9, value bytes)
    Varints { seed: u64, n: u8 },
    /// a stream-directory look-alike: count, then NUL-terminated names and small varints
    FakeDir { seed: u64, streams: u8 },
}

#[derive(Clone, Debug, Hash, Serialize, Deserialize)]
pub struct CraftedPart {
    pub stream: u8,
    pub meta: u64,
    pub chunks: Vec<Chunk>,
}

#[derive(Clone, Debug, Hash, Serialize, Deserialize)]
pub struct CraftedCase {
    pub real_names: bool,
    pub parts: Vec<CraftedPart>,
    pub only: Option<Vec<u64>>,
}

fn put_varint(out: &mut Vec<u8>, v: u64) {
    if v == 0 {
        out.push(0);
        return;
    }
    let n = (64 - v.leading_zeros() as usize + 7) / 8;
    out.push(n as u8);
    for i in (0..n).rev() {
        out.push((v >> (8 * i)) as u8);
    }
}

fn expand_chunks(chunks: &[Chunk], written_before: usize) -> Vec<u8> {
    use crate::util::SplitMix;
    let mut out: Vec<u8> = Vec::new();
    for c in chunks {
        match c {
            Chunk::Rand { seed, len } => {
                let mut r = SplitMix::new(*seed);
                out.extend((0..*len).map(|_| r.next() as u8));
            }
            Chunk::Zero(n) => out.extend(std::iter::repeat(0u8).take(*n as usize)),
            Chunk::Ff(n) => out.extend(std::iter::repeat(0xFFu8).take(*n as usize)),
            Chunk::Back { frac, sub } => {
                let total = (written_before + out.len()) as u64;
                let v = (total * *frac as u64 >> 16).saturating_sub(*sub as u64);
                out.extend(v.to_le_bytes());
            }
            Chunk::CountFf { seed, len } => {
                let mut r = SplitMix::new(*seed);
                out.push(0xFF);
                out.extend((0..*len).map(|_| r.next() as u8));
            }
            Chunk::Varints { seed, n } => {
                let mut r = SplitMix::new(*seed);
                for _ in 0..*n {
                    let k = r.below(11);
                    let k = if k == 10 { 255 } else { k };
                    out.push(k as u8);
                    out.extend((0..k.min(9)).map(|_| r.next() as u8));
                }
            }
            Chunk::FakeDir { seed, streams } => {
                let mut r = SplitMix::new(*seed);
                put_varint(&mut out, *streams as u64);
                for s in 0..*streams {
                    out.extend(format!("x{}", s).as_bytes());
                    out.push(0);
                    let np = r.below(4);
                    put_varint(&mut out, np);
                    put_varint(&mut out, r.below(1 << 20));
                    for _ in 0..np {
                        put_varint(&mut out, r.below(1 << 16));
                        put_varint(&mut out, r.below(1 << 10));
                    }
                }
            }
        }
    }
    out
}

fn write_crafted(case: &CraftedCase, path: &Path) -> Result<u64, String> {
    use ragc_common::Archive;
    let names: [&str; 5] = if case.real_names { ["file_type_info", "params", "collection-samples", "collection-contigs", "collection-details"] } else { ["s0", "s1", "seg-a", "xAAr", "xAAd"] };
    let mut w = Archive::new_writer();
    w.open(path).map_err(|e| format!("open for writing: {}", e))?;
    let ids: Vec<usize> = names.iter().map(|n| w.register_stream(n)).collect();
    let mut written = 0usize;
    for p in &case.parts {
        let data = expand_chunks(&p.chunks, written);
        written += data.len() + 2;
        w.add_part(ids[p.stream as usize % ids.len()], &data, p.meta).map_err(|e| format!("add_part: {}", e))?;
    }
    w.close().map_err(|e| format!("close: {}", e))?;
    std::fs::metadata(path).map(|m| m.len()).map_err(|e| e.to_string())
}

pub fn check_crafted(ctx: &Ctx, case: &CraftedCase, counters: &std::cell::Cell<[u64; 6]>) -> Report {
    let dir = ctx.scratch("c14c");
    let archive = dir.file("crafted.agc");
    let len = match guarded(|| write_crafted(case, &archive)) {
        Ok(Ok(l)) => l,
        Ok(Err(e)) => return Report::inconclusive(format!("harness: cannot write the crafted container: {}", e)),
        Err(p) => return Report::inconclusive(format!("harness: writing the crafted container panicked (C13's subject): {}", p)),
    };
    let exe = std::env::current_exe().expect("current exe");
    let mut rep = Report::pass(false).label("crafted-container").label_if(case.real_names, "crafted:real-stream-names");
    let mut all: Vec<(u64, String)> = Vec::new();
    let mut c6 = counters.get();
    let mut in_range = 0;
    for (which, bin) in [("release", exe.as_path()), ("checked", ctx.vcheck_checked.as_path())] {
        if !bin.exists() {
            return Report::inconclusive(format!("the {} build of the harness is missing: {}", which, bin.display()));
        }
        let s = sweep(bin, &archive, &dir.path, len, 1, which, &case.only);
        if let Some(m) = s.inconclusive {
            return Report::inconclusive(m);
        }
        c6[0] += s.tried;
        c6[1] += s.classes[0];
        c6[2] += s.classes[1];
        c6[3] += s.classes[2];
        c6[4] += s.classes[3];
        c6[5] += s.archive_open_ok;
        in_range += s.classes[2];
        for (n, w) in s.violations {
            all.push((n, format!("[{} build] prefix {} of {}: {}", which, n, len, w)));
        }
    }
    counters.set(c6);
    rep.nontrivial = in_range >= 2;
    rep = rep.label_if(in_range >= 2, "crafted:prefix-with-in-range-length");
    if !all.is_empty() {
        all.sort();
        let n = all.len();
        let first = &all[0];
        let distinct: std::collections::BTreeSet<String> = all.iter().map(|(_, w)| w.split(": ").skip(1).collect::<Vec<_>>().join(": ").chars().take(90).collect()).collect();
        rep.verdict = Verdict::Fail(format!("{} prefix(es) of a crafted container not rejected cleanly; first: {}; kinds: {:?}", n, first.1, distinct.iter().take(4).collect::<Vec<_>>()));
    }
    rep
}

fn crafted_strategy() -> impl proptest::strategy::Strategy<Value = CraftedCase> {
    use proptest::prelude::*;
    let chunk = prop_oneof![
        3 => (any::<u64>(), 1u16..300).prop_map(|(seed, len)| Chunk::Rand { seed, len }),
        2 => (1u8..24).prop_map(Chunk::Zero),
        2 => (1u8..24).prop_map(Chunk::Ff),
        4 => (any::<u16>(), 0u8..24).prop_map(|(frac, sub)| Chunk::Back { frac, sub }),
        3 => (any::<u64>(), prop_oneof![250u16..262, 262u16..700]).prop_map(|(seed, len)| Chunk::CountFf { seed, len }),
        2 => (any::<u64>(), 1u8..40).prop_map(|(seed, n)| Chunk::Varints { seed, n }),
        2 => (any::<u64>(), prop_oneof![0u8..6, Just(255u8)]).prop_map(|(seed, streams)| Chunk::FakeDir { seed, streams }),
    ];
    let part = (0u8..5, prop_oneof![Just(0u64), 1u64..300, any::<u64>()], prop::collection::vec(chunk, 1..10)).prop_map(|(stream, meta, chunks)| CraftedPart { stream, meta, chunks });
    (any::<bool>(), prop::collection::vec(part, 1..8)).prop_map(|(real_names, parts)| CraftedCase { real_names, parts, only: None })
}

fn cfg() -> GenCfg {
    GenCfg { max_contig: 12000, max_samples: 6, many_samples_pct: 6, single_file: None, vary_presentation: false, swarm_pct: 0 }
}

pub fn run(ctx: &Ctx, stats: &mut Stats) {
    use proptest::prelude::*;
    let c2 = ctx.clone();
    let counters = std::cell::Cell::new([0u64; 6]);
    let n = ctx.tier.pick(32, 192);
    {
        let check = |c: &PrefixCase| check_in(&c2, c, &counters);
        run_prop(ctx, stats, "archives", n, gen::collection_strategy(cfg()).prop_map(|collection| PrefixCase { collection, only: None }), &check);
        let n2 = ctx.tier.pick(320, 6_000);
        let check2 = |c: &CraftedCase| check_crafted(&c2, c, &counters);
        run_prop(ctx, stats, "crafted-containers", n2, crafted_strategy(), &check2);
    }
    let c = counters.get();
    stats.add_extra_count("prefix_opens", c[0]);
    stats.add_extra_count("prefix_tail_ge_2^63", c[1]);
    stats.add_extra_count("prefix_tail_gt_file", c[2]);
    stats.add_extra_count("prefix_tail_le_file", c[3]);
    stats.add_extra_count("prefix_shorter_than_8", c[4]);
    stats.add_extra_count("container_open_accepted_prefix", c[5]);
}

pub fn replay(ctx: &Ctx, stage: &str, case: &Value) -> Report {
    let counters = std::cell::Cell::new([0u64; 6]);
    if stage == "crafted-containers" {
        return match from_case::<CraftedCase>(case) {
            Ok(c) => check_crafted(ctx, &c, &counters),
            Err(e) => Report::fail(e),
        };
    }
    match from_case::<PrefixCase>(case) {
        Ok(c) => check_in(ctx, &c, &counters),
        Err(e) => Report::fail(e),
    }
}

pub const INFO: PropInfo = PropInfo {
    id: "C14",
    level: "fault_enumeration",
    rule: "cases = archives created by `ragc create` from generated collections (16 quick / 96 thorough; both modes; ~3..300 kB); for each archive EVERY strict prefix length n in 0..len-1 (archives > 200 kB: every n within 4 kB of either end plus every 8th in between) is produced by truncating a copy in place and opened with Archive::open and Decompressor::open in a child process under RLIMIT_AS = 4 GiB, once with the release build of the harness and once with the overflow-checked build. Oracle: Decompressor::open returns Err (a returned handle is a violation whether or not samples are readable), no panic, the child does not die (abort / signal = e.g. a garbage-sized allocation), within the watchdog. The number of opens and the distribution of the prefix's last 8 bytes read as a length (>= 2^63, > file size, <= file size, file shorter than 8 bytes) are reported. Non-trivial archive = its prefixes cover both out-of-range length classes (>= 2^63 and > file size; in-range values need five zero bytes and are rare); distinct = distinct collection. Stage crafted-containers (320 quick / 6000 thorough): containers written with ragc's own Archive writer whose part payloads are generated from chunks that make in-range footer lengths frequent (runs of 0x00 / 0xFF, little-endian back-pointers into earlier data, a 0xFF count byte followed by >= 255 bytes, varint-looking groups incl. length bytes 9 and 255, directory look-alikes), with real or neutral stream names; every strict prefix, both builds, same oracle; non-trivial = at least 2 prefixes whose last 8 bytes are an in-range length.",
    assumptions: &["the file is written front to back in one pass at finalize, so strict prefixes are exactly the states a crash / kill / full disk / interrupted copy leaves", "Archive::open alone accepting a prefix is counted (container_open_accepted_prefix) but only a Decompressor handle is a violation"],
    needs_cli: true,
    needs_checked: true,
    max_shards: 16,
    shrink_iters: 0,
    watchdog_s: (2400, 14400),
    run,
    replay,
};
