//! C01 — lossless round trip: create then extract returns every sample exactly.

use crate::archive_case::*;
use crate::engine::*;
use crate::fasta;
use crate::gen::{self, Collection, GenCfg};
use crate::pipeline;
use serde_json::Value;

pub fn check_in(ctx: &Ctx, c: &Collection) -> Report {
    let e = match examine(ctx, c, "c01") {
        Outcome::Ready(e) => e,
        Outcome::NotCreated(r) => return r,
    };
    let mut rep = Report::pass(nontrivial(c, &e));
    rep.labels = e.labels.clone();
    // the library reader
    let got = match guarded(|| pipeline::read_all(&e.built.archive)) {
        Ok(Ok(g)) => g,
        Ok(Err(err)) => return Report { verdict: Verdict::Fail(format!("archive written by create cannot be extracted: {}", err)), ..rep },
        Err(p) => return Report { verdict: Verdict::Fail(format!("extraction panicked: {}", p)), ..rep },
    };
    if let Some(d) = fasta::first_difference(&e.expected, &got) {
        return Report { verdict: Verdict::Fail(format!("extracted collection differs from the input (input vs archive): {}", d)), ..rep };
    }
    // the CLI for one sample in eight cases (keeps main.rs / write_sample_fasta honest)
    if crate::util::stable_hash(c) % 8 == 0 {
        let idx = (crate::util::stable_hash(c) / 8) as usize % c.samples.len();
        let name = &e.expected[idx].0;
        match pipeline::cli(&ctx.ragc, &["getset", &e.built.archive.to_string_lossy(), name]) {
            Ok(o) if o.ok() => {
                let recs = fasta::parse_fasta(&o.stdout);
                if recs != e.expected[idx].1 {
                    let d = fasta::first_difference(&vec![e.expected[idx].clone()], &vec![(name.clone(), recs)]).unwrap_or_default();
                    return Report { verdict: Verdict::Fail(format!("ragc getset output differs from the input: {}", d)), ..rep };
                }
                rep.labels.push("cli-getset-compared");
            }
            Ok(o) => return Report { verdict: Verdict::Fail(format!("ragc getset {:?} failed on a created archive: {}", name, o.describe())), ..rep },
            Err(err) => return Report::inconclusive(format!("cannot run ragc getset: {}", err)),
        }
    }
    rep
}

pub fn run(ctx: &Ctx, stats: &mut Stats) {
    let c2 = ctx.clone();
    let check = move |c: &Collection| check_in(&c2, c);
    let n = ctx.tier.pick(640, 12000);
    run_prop(ctx, stats, "collections", n, gen::collection_strategy(GenCfg::standard()), &check);
    // the >50-sample branch (several metadata batches, >50 members per group) on its own budget
    let n2 = ctx.tier.pick(48, 600);
    let cfg = GenCfg { max_contig: 2200, max_samples: 3, many_samples_pct: 100, single_file: None, vary_presentation: false, swarm_pct: 0 };
    run_prop(ctx, stats, "many-samples", n2, gen::collection_strategy(cfg), &check);
}

pub fn replay(ctx: &Ctx, _stage: &str, case: &Value) -> Report {
    match from_case::<Collection>(case) {
        Ok(c) => check_in(ctx, &c),
        Err(e) => Report::fail(e),
    }
}

pub const INFO: PropInfo = PropInfo {
    id: "C01",
    level: "exploration",
    rule: "cases = collections built by construction from an ancestor genome (1..4 contigs of 1..12000 bases, optional low-complexity stretch, optional N / IUPAC runs of the ancestor itself that every sample inherits) and 1..5 related samples (divergence 0/0.1/1/3/10 %, SNP/indel edits, N runs 1..300, all IUPAC codes, targeted knock-out of a reference splitter with an ambiguity code placed next to it, whole-contig reverse complement, contig dropped / duplicated / novel / reordered, identical samples, a variant placed 1..40 bases next to an N run, and in 4 % of the cases a swarm of 60..2600 short unrelated contigs in one sample so that raw groups receive several packs in one batch), plus a branch with 49..126 samples; parameters k 9..32, segment size 50..1000/5000/60000, min match 15..32, threads 1..16, -l 1..60, fallback 0/0.05/0.5/1, queue capacity from just above the largest contig to 2 GiB, one file per sample or one PanSN file; presentation (line width, CRLF, case, gzip / multi-member gzip with member boundaries anywhere, at record starts or at line starts) randomised. Created with the real `ragc create`; oracle: Decompressor::list_samples/get_sample (and `ragc getset` for one sample in 1/8 of the cases) equals the input under the documented normalisation: same sample order, same headers, same bases. Non-trivial = >= 2 samples and at least one LZ-encoded delta in the archive (seen by the independent decoder); distinct = distinct collection.",
    assumptions: &["inputs respect the implicit preconditions of the callers: unique sample names, unique contig headers within a sample, headers without leading/trailing blanks, non-PanSN headers with fewer than two '#', PanSN samples contiguous, every contig admissible by the queue capacity"],
    needs_cli: true,
    needs_checked: false,
    max_shards: 16,
    shrink_iters: 40,
    watchdog_s: (1800, 14400),
    run,
    replay,
};
