//! C20 — canonical k-mer arithmetic is window-exact and strand-symmetric.

use crate::engine::*;
use crate::naive;
use proptest::prelude::*;
use ragc_core::kmer::{Kmer, KmerMode};
use ragc_core::{canonical_kmer, enumerate_kmers, reverse_complement_kmer};
use serde::{Deserialize, Serialize};
use serde_json::Value;

#[derive(Clone, Debug, Hash, Serialize, Deserialize)]
pub struct KmerCase {
    pub k: u8,
    pub seq: Vec<u8>,
}

pub fn check(case: &KmerCase) -> Report {
    let k = case.k as usize;
    let seq = &case.seq;
    let wins = naive::windows(seq, k);
    let mut labels: Vec<&'static str> = Vec::new();
    if k == 32 {
        labels.push("k=32");
    }
    if k == 31 {
        labels.push("k=31");
    }
    if k == 1 {
        labels.push("k=1");
    }
    let has_reset_inside = seq.iter().any(|&c| c > 3) && !wins.is_empty();
    if has_reset_inside {
        labels.push("non-ACGT-with-windows");
    }

    // (1) sliding value == from-scratch value, via the protocol every caller uses
    let mut km = Kmer::new(k as u32, KmerMode::Canonical);
    let mut wi = 0usize;
    let mut any_asym = false;
    for (pos, &b) in seq.iter().enumerate() {
        if b > 3 {
            km.reset();
            continue;
        }
        km.insert(b as u64);
        if km.is_full() {
            let Some(&(end, w)) = wins.get(wi) else {
                return Report::fail(format!("sliding k-mer reports a full window at {} but the model has no more windows", pos));
            };
            wi += 1;
            if end != pos {
                return Report::fail(format!("sliding window ends at {} but the model's next window ends at {}", pos, end));
            }
            let fwd = naive::pack(w);
            let rcw = naive::revcomp(w);
            let rc = naive::pack(&rcw);
            if fwd != rc {
                any_asym = true;
            } else {
                if !labels.contains(&"palindrome") {
                    labels.push("palindrome");
                }
            }
            if km.data_dir() != fwd {
                return Report::fail(format!("pos {}: forward packing {:#018x} != model {:#018x}", pos, km.data_dir(), fwd));
            }
            if km.data_rc() != rc {
                return Report::fail(format!("pos {}: reverse packing {:#018x} != model {:#018x}", pos, km.data_rc(), rc));
            }
            if km.data() != fwd.min(rc) || km.data_canonical() != fwd.min(rc) {
                return Report::fail(format!("pos {}: canonical {:#018x} != min(fwd, rc) {:#018x}", pos, km.data(), fwd.min(rc)));
            }
            if km.is_dir_oriented() != (fwd <= rc) {
                return Report::fail(format!("pos {}: direction flag {} but fwd<=rc is {}", pos, km.is_dir_oriented(), fwd <= rc));
            }
            // from scratch on the window and on its reverse complement
            let mut a = Kmer::new(k as u32, KmerMode::Canonical);
            for &x in w {
                a.insert(x as u64);
            }
            let mut r = Kmer::new(k as u32, KmerMode::Canonical);
            for &x in &rcw {
                r.insert(x as u64);
            }
            if !a.is_full() || a.data() != km.data() {
                return Report::fail(format!("pos {}: sliding value {:#018x} != from-scratch {:#018x}", pos, km.data(), a.data()));
            }
            if r.data() != km.data() {
                return Report::fail(format!("pos {}: canonical of window {:#018x} != canonical of its reverse complement {:#018x}", pos, km.data(), r.data()));
            }
            if reverse_complement_kmer(fwd, k as u32) != rc {
                return Report::fail(format!("reverse_complement_kmer({:#018x},{}) = {:#018x}, model {:#018x}", fwd, k, reverse_complement_kmer(fwd, k as u32), rc));
            }
            if reverse_complement_kmer(reverse_complement_kmer(fwd, k as u32), k as u32) != fwd {
                return Report::fail(format!("reverse complement twice is not the identity for {:#018x}, k={}", fwd, k));
            }
            if canonical_kmer(fwd, k as u32) != fwd.min(rc) || canonical_kmer(rc, k as u32) != fwd.min(rc) {
                return Report::fail(format!("canonical_kmer disagrees with min(fwd, rc) for {:#018x}, k={}", fwd, k));
            }
        }
    }
    if wi != wins.len() {
        return Report::fail(format!("sliding produced {} full windows, model {}", wi, wins.len()));
    }
    // (2) enumerate_kmers yields exactly the windows, in order
    let got = enumerate_kmers(seq, k);
    let want: Vec<u64> = wins.iter().map(|(_, w)| naive::canonical(w)).collect();
    if got != want {
        return Report::fail(format!("enumerate_kmers returned {} values, model {} (first difference at {:?})", got.len(), want.len(), got.iter().zip(want.iter()).position(|(a, b)| a != b)));
    }
    let nontrivial = wins.len() >= 2 && any_asym;
    Report { labels, nontrivial, verdict: Verdict::Pass }
}

fn strat() -> impl Strategy<Value = KmerCase> {
    let k = prop_oneof![
        3 => 1u8..=32,
        2 => Just(32u8),
        2 => Just(31u8),
        1 => Just(1u8),
        1 => 28u8..=32,
    ];
    k.prop_flat_map(|k| {
        let sym = prop_oneof![
            40 => 0u8..4,
            1 => 4u8..16,
        ];
        let pure = prop::collection::vec(0u8..4, (k as usize)..(k as usize + 200));
        let mixed = prop::collection::vec(sym, 0..(k as usize + 200));
        // low-complexity: few distinct symbols => palindromes / equal windows
        let low = (0u8..4, 0u8..4, prop::collection::vec(any::<bool>(), (k as usize)..(k as usize + 80)))
            .prop_map(|(a, b, bits)| bits.into_iter().map(|x| if x { a } else { b }).collect::<Vec<u8>>());
        prop_oneof![3 => pure, 3 => mixed, 1 => low].prop_map(move |seq| KmerCase { k, seq })
    })
}


/// libFuzzer leg: [k][symbols...]
pub fn from_fuzz(data: &[u8]) -> KmerCase {
    use crate::fuzzing::Cur;
    let mut c = Cur::new(data);
    let k = 1 + c.u8() % 32;
    let seq: Vec<u8> = c.rest().iter().map(|&b| if b < 244 { b & 3 } else { 4 + (b - 244) }).collect();
    KmerCase { k, seq }
}

pub fn fuzz_seeds() -> Vec<Vec<u8>> {
    let mut r = crate::util::SplitMix::new(0xC20);
    let mut out = Vec::new();
    for k in [31u8, 0, 2, 20] {
        let mut v = vec![k];
        v.extend((0..90).map(|_| (r.next() & 0x7f) as u8));
        out.push(v);
    }
    out.push(vec![3, 0, 3, 0, 3, 0, 3, 250, 1, 2, 1, 2]);
    out
}

/// all sequences of length 0..=max_len over `alphabet`, for a given k
fn all_seqs(k: u8, alphabet: &'static [u8], max_len: usize) -> impl Iterator<Item = KmerCase> {
    let a = alphabet.len();
    (0..=max_len).flat_map(move |len| {
        let total = (a as u64).pow(len as u32);
        (0..total).map(move |mut idx| {
            let mut seq = Vec::with_capacity(len);
            for _ in 0..len {
                seq.push(alphabet[(idx % a as u64) as usize]);
                idx /= a as u64;
            }
            KmerCase { k, seq }
        })
    })
}

pub fn run(ctx: &Ctx, stats: &mut Stats) {
    // exhaustive: every window of exactly k bases, k <= 8
    for k in 1u8..=8 {
        let stage = "exh-windows";
        let items = {
            let total = 4u64.pow(k as u32);
            (0..total).map(move |mut idx| {
                let mut seq = Vec::with_capacity(k as usize);
                for _ in 0..k {
                    seq.push((idx & 3) as u8);
                    idx >>= 2;
                }
                KmerCase { k, seq }
            })
        };
        run_exhaustive(ctx, stats, stage, items, &check);
    }
    // exhaustive: every sequence of length <= k+3 over ACGT+N for k <= 5 (quick: k <= 4)
    let kmax = ctx.tier.pick(4u8, 5u8);
    for k in 1u8..=kmax {
        run_exhaustive(ctx, stats, "exh-slide", all_seqs(k, &[0, 1, 2, 3, 4], k as usize + 3), &check);
    }
    let n = ctx.tier.pick(3_000_000, 40_000_000);
    run_prop(ctx, stats, "random", n, strat(), &check);
    if ctx.tier == Tier::Thorough || std::env::var("VERIF_FUZZ").is_ok() {
        crate::fuzzing::run_stage(ctx, stats, "kmer", ctx.tier.pick(400_000, 8_000_000));
    }
}

pub fn replay(_ctx: &Ctx, _stage: &str, case: &Value) -> Report {
    match from_case::<KmerCase>(case) {
        Ok(c) => check(&c),
        Err(e) => Report::fail(e),
    }
}

pub const INFO: PropInfo = PropInfo {
    id: "C20",
    level: "exploration",
    rule: "cases = (k, symbol string); exhaustive: all 4^k windows for k<=8 and all strings of length <= k+3 over {A,C,G,T,N} for k<=4 (quick) / k<=5 (thorough); random: k in 1..32 weighted to 31/32, length up to k+200, some non-ACGT symbols. Oracle: naive string model (left-aligned 2-bit packing, string reversal). Non-trivial = at least two full windows and a window whose forward and reverse packings differ; distinct = distinct (k, string).",
    assumptions: &["callers reset the k-mer at symbols > 3 (the protocol segment.rs, splitters.rs and kmer_extract.rs use)"],
    needs_cli: false,
    needs_checked: false,
    max_shards: 16,
    shrink_iters: 400,
    watchdog_s: (900, 7200),
    run,
    replay,
};
