//! C03 — sample and contig catalogue is preserved exactly (codec layer through
//! hook H1, batch layer through an Archive file, end to end through ragc create).

use crate::agcref;
use crate::archive_case::*;
use crate::engine::*;
use crate::gen::{self, Collection, GenCfg};
use crate::pipeline;
use proptest::prelude::*;
use ragc_common::{Archive, CollectionV3, SegmentDesc};
use ragc_core::{Decompressor, DecompressorConfig};
use serde::{Deserialize, Serialize};
use serde_json::Value;

#[derive(Clone, Copy, Debug, Hash, PartialEq, Eq, Serialize, Deserialize)]
pub struct D {
    pub g: u32,
    pub id: u32,
    pub rc: bool,
    pub len: u32,
}

#[derive(Clone, Debug, Hash, Serialize, Deserialize)]
pub struct Catalog {
    pub segment_size: u32,
    pub k: u32,
    /// samples per (de)serialisation batch in the codec layer
    pub batch: u16,
    pub samples: Vec<(String, Vec<(String, Vec<D>)>)>,
}

fn build(cat: &Catalog) -> Result<CollectionV3, String> {
    let mut c = CollectionV3::new();
    c.set_config(cat.segment_size, cat.k, None);
    for (s, contigs) in &cat.samples {
        for (n, descs) in contigs {
            match c.register_sample_contig(s, n) {
                Ok(true) => {}
                Ok(false) => return Err(format!("harness: duplicate contig name {:?} in sample {:?}", n, s)),
                Err(e) => return Err(format!("register_sample_contig failed: {}", e)),
            }
            for (i, d) in descs.iter().enumerate() {
                c.add_segment_placed(s, n, i, d.g, d.id, d.rc, d.len).map_err(|e| format!("add_segment_placed failed: {}", e))?;
            }
        }
    }
    Ok(c)
}

fn compare(cat: &Catalog, c: &CollectionV3, what: &str) -> Option<String> {
    let names: Vec<String> = cat.samples.iter().map(|s| s.0.clone()).collect();
    if c.get_samples_list(false) != names {
        return Some(format!("{}: sample list {:?} != written {:?}", what, c.get_samples_list(false).iter().take(5).collect::<Vec<_>>(), names.iter().take(5).collect::<Vec<_>>()));
    }
    for (s, contigs) in &cat.samples {
        let got = match c.get_sample_desc(s) {
            Some(g) => g,
            None => return Some(format!("{}: sample {:?} not found", what, s)),
        };
        if got.len() != contigs.len() {
            return Some(format!("{}: sample {:?} has {} contigs, written {}", what, s, got.len(), contigs.len()));
        }
        for (j, ((gn, gd), (wn, wd))) in got.iter().zip(contigs.iter()).enumerate() {
            if gn != wn {
                return Some(format!("{}: sample {:?} contig {}: name {:?} != written {:?}", what, s, j, gn, wn));
            }
            let gd: Vec<D> = gd.iter().map(|d: &SegmentDesc| D { g: d.group_id, id: d.in_group_id, rc: d.is_rev_comp, len: d.raw_length }).collect();
            if &gd != wd {
                let at = gd.iter().zip(wd.iter()).position(|(a, b)| a != b).unwrap_or(gd.len().min(wd.len()));
                return Some(format!("{}: sample {:?} contig {:?}: descriptor {} differs: {:?} != written {:?}", what, s, wn, at, gd.get(at), wd.get(at)));
            }
        }
    }
    None
}

fn labels(cat: &Catalog) -> (Vec<&'static str>, bool) {
    let mut l = Vec::new();
    let mut shares = false;
    let mut nonmono = false;
    for (_, contigs) in &cat.samples {
        for w in contigs.windows(2) {
            let a: Vec<&str> = w[0].0.split(' ').collect();
            let b: Vec<&str> = w[1].0.split(' ').collect();
            if a.len() == b.len() && a.iter().zip(b.iter()).any(|(x, y)| x == y) && a.iter().zip(b.iter()).any(|(x, y)| x != y) {
                shares = true;
            }
            if a.len() == b.len() && a.iter().zip(b.iter()).any(|(x, y)| x != y && x.len() == y.len() && x.bytes().zip(y.bytes()).filter(|(p, q)| p == q).count() > 100) {
                l.push("run-marker>100");
            }
            if a.len() != b.len() {
                l.push("field-count-changes");
            }
        }
        if contigs.iter().any(|c| c.0.split(' ').any(|f| f.is_empty())) {
            l.push("empty-field");
        }
        if contigs.iter().any(|c| c.0.contains('\t')) {
            l.push("tab");
        }
    }
    let mut last: std::collections::BTreeMap<u32, u32> = Default::default();
    for (_, contigs) in &cat.samples {
        for (_, ds) in contigs {
            for d in ds {
                if let Some(&p) = last.get(&d.g) {
                    if d.id != p + 1 {
                        nonmono = true;
                    }
                    if d.id < p {
                        l.push("id-goes-back");
                    }
                    if d.id == 0 && p > 0 {
                        l.push("id-0-after>0");
                    }
                    if d.id == p {
                        l.push("id-repeats");
                    }
                }
                last.insert(d.g, d.id);
            }
        }
    }
    if cat.samples.len() > 50 {
        l.push("samples>50");
    }
    if (cat.batch as usize) < cat.samples.len() {
        l.push("several-batches");
    }
    l.sort();
    l.dedup();
    (l, shares && nonmono)
}

/// layer 1: the codec itself (hook H1), differential against the independent decoder
pub fn check_codec(cat: &Catalog) -> Report {
    let (l, nt) = labels(cat);
    let mut rep = Report::pass(nt);
    rep.labels = l;
    let mut w = match build(cat) {
        Ok(c) => c,
        Err(e) => return Report::fail(e),
    };
    let n = cat.samples.len();
    let mut r = CollectionV3::new();
    r.set_config(cat.segment_size, cat.k, None);
    let sn = w.verif_serialize_sample_names();
    match agcref::decode_sample_names(&sn) {
        Ok(v) if v == cat.samples.iter().map(|s| s.0.clone()).collect::<Vec<_>>() => {}
        Ok(_) => return Report::fail("independent decoder reads different sample names".to_string()),
        Err(e) => return Report::fail(format!("independent decoder rejects the sample-name table: {}", e)),
    }
    if let Err(e) = r.verif_deserialize_sample_names(&sn) {
        return Report::fail(format!("deserialize_sample_names failed: {}", e));
    }
    let b = (cat.batch as usize).max(1);
    let mut from = 0;
    while from < n {
        let to = (from + b).min(n);
        let names = w.verif_serialize_contig_names(from, to);
        let details = w.verif_serialize_contig_details(from, to);
        // independent decoders on the same bytes
        match agcref::decode_contig_names(&names) {
            Ok(v) => {
                let want: Vec<Vec<String>> = cat.samples[from..to].iter().map(|s| s.1.iter().map(|c| c.0.clone()).collect()).collect();
                if v != want {
                    let (si, ci) = v.iter().zip(want.iter()).enumerate().find_map(|(i, (a, b))| a.iter().zip(b.iter()).position(|(x, y)| x != y).map(|j| (i, j))).unwrap_or((0, 0));
                    return Report::fail(format!("independent decoder reads contig name {:?}, written {:?} (sample {}, contig {})", v.get(si).and_then(|s| s.get(ci)), want.get(si).and_then(|s| s.get(ci)), from + si, ci));
                }
            }
            Err(e) => return Report::fail(format!("independent decoder rejects the contig-name table: {}", e)),
        }
        match agcref::decode_details(&details, cat.segment_size, cat.k) {
            Ok(v) => {
                let want: Vec<Vec<Vec<agcref::Desc>>> = cat.samples[from..to]
                    .iter()
                    .map(|s| s.1.iter().map(|c| c.1.iter().map(|d| agcref::Desc { group: d.g, in_group: d.id, rc: d.rc, raw_len: d.len }).collect()).collect())
                    .collect();
                if v != want {
                    return Report::fail("independent decoder reads a different descriptor table".to_string());
                }
            }
            Err(e) => return Report::fail(format!("independent decoder rejects the descriptor table: {}", e)),
        }
        if let Err(e) = r.verif_deserialize_contig_names(&names, from) {
            return Report::fail(format!("deserialize_contig_names failed: {}", e));
        }
        if let Err(e) = r.verif_deserialize_contig_details(&details, from) {
            return Report::fail(format!("deserialize_contig_details failed: {}", e));
        }
        from = to;
    }
    if let Some(d) = compare(cat, &r, "codec round trip") {
        return Report { verdict: Verdict::Fail(d), ..rep };
    }
    rep
}

/// layer 2: 50-sample batches through a real Archive file and the lazy batch loader
pub fn check_batches(ctx: &Ctx, cat: &Catalog) -> Report {
    let (l, nt) = labels(cat);
    let mut rep = Report::pass(nt);
    rep.labels = l;
    let dir = ctx.scratch("c03");
    let path = dir.file("c.agc");
    let mut w = match build(cat) {
        Ok(c) => c,
        Err(e) => return Report::fail(e),
    };
    let n = cat.samples.len();
    let mut a = Archive::new_writer();
    let res: anyhow::Result<()> = (|| {
        a.open(&path)?;
        w.prepare_for_compression(&mut a)?;
        w.store_batch_sample_names(&mut a)?;
        let mut i = 0;
        while i < n {
            let e = (i + 50).min(n);
            w.store_contig_batch(&mut a, i, e)?;
            i = e;
        }
        a.flush_buffers()?;
        a.close()
    })();
    if let Err(e) = res {
        return Report::fail(format!("writing the catalogue failed: {:#}", e));
    }
    let mut ra = Archive::new_reader();
    let mut r = CollectionV3::new();
    r.set_config(cat.segment_size, cat.k, None);
    let res: anyhow::Result<()> = (|| {
        ra.open(&path)?;
        r.prepare_for_decompression(&ra)?;
        r.load_batch_sample_names(&mut ra)?;
        let nb = r.get_no_contig_batches(&ra)?;
        if nb != (n + 49) / 50 {
            anyhow::bail!("{} contig batches for {} samples", nb, n);
        }
        for b in 0..nb {
            r.load_contig_batch(&mut ra, b)?;
        }
        Ok(())
    })();
    if let Err(e) = res {
        return Report::fail(format!("reading the catalogue back failed: {:#}", e));
    }
    if let Some(d) = compare(cat, &r, "archive round trip") {
        return Report { verdict: Verdict::Fail(d), ..rep };
    }
    rep.label("via-archive-file")
}

/// layer 3: end to end through `ragc create`, the library reader and the CLI listings
pub fn check_e2e(ctx: &Ctx, c: &Collection) -> Report {
    let e = match examine(ctx, c, "c03") {
        Outcome::Ready(e) => e,
        Outcome::NotCreated(r) => return r,
    };
    let mut rep = Report::pass(c.samples.len() >= 2 && c.samples.iter().any(|s| s.contigs.len() >= 2));
    rep.labels = e.labels.clone();
    let path = e.built.archive.to_string_lossy().to_string();
    let mut d = match Decompressor::open(&path, DecompressorConfig { verbosity: 0 }) {
        Ok(d) => d,
        Err(err) => return Report { verdict: Verdict::Fail(format!("open failed: {:#}", err)), ..rep },
    };
    let want_samples: Vec<String> = c.samples.iter().map(|s| s.name.clone()).collect();
    if d.list_samples() != want_samples {
        return Report { verdict: Verdict::Fail(format!("list_samples {:?} != samples in first-added order {:?}", d.list_samples().iter().take(6).collect::<Vec<_>>(), want_samples.iter().take(6).collect::<Vec<_>>())), ..rep };
    }
    for s in &c.samples {
        let want: Vec<String> = s.contigs.iter().map(|r| r.header.clone()).collect();
        match d.list_contigs(&s.name) {
            Ok(got) if got == want => {}
            Ok(got) => {
                let at = got.iter().zip(want.iter()).position(|(a, b)| a != b).unwrap_or(got.len().min(want.len()));
                return Report { verdict: Verdict::Fail(format!("list_contigs({:?}): entry {} is {:?}, input header {:?} ({} vs {} names)", s.name, at, got.get(at), want.get(at), got.len(), want.len())), ..rep };
            }
            Err(err) => return Report { verdict: Verdict::Fail(format!("list_contigs({:?}) failed: {:#}", s.name, err)), ..rep },
        }
    }
    // descriptor tables: the reader's table equals the independent decoder's
    if let Ok(f) = &e.facts {
        let mut d2 = match Decompressor::open(&path, DecompressorConfig { verbosity: 0 }) {
            Ok(d) => d,
            Err(err) => return Report { verdict: Verdict::Fail(format!("open failed: {:#}", err)), ..rep },
        };
        match guarded(|| d2.get_all_segments()) {
            Ok(Ok(all)) => {
                let mut want = Vec::new();
                for (si, s) in f.contigs.iter().enumerate() {
                    for (n, ds, _) in s {
                        want.push((f.samples[si].clone(), n.clone(), ds.iter().map(|x| (x.group, x.in_group, x.rc, x.raw_len)).collect::<Vec<_>>()));
                    }
                }
                let got: Vec<_> = all.into_iter().map(|(s, n, ds)| (s, n, ds.iter().map(|x| (x.group_id, x.in_group_id, x.is_rev_comp, x.raw_length)).collect::<Vec<_>>())).collect();
                if got != want {
                    return Report { verdict: Verdict::Fail("get_all_segments differs from the descriptor table the independent decoder reads from the file".to_string()), ..rep };
                }
            }
            Ok(Err(err)) => return Report { verdict: Verdict::Fail(format!("get_all_segments failed: {:#}", err)), ..rep },
            Err(p) => return Report { verdict: Verdict::Fail(format!("get_all_segments panicked: {}", p)), ..rep },
        }
    }
    // CLI listings for a third of the cases
    if crate::util::stable_hash(c) % 3 == 0 {
        match pipeline::cli(&ctx.ragc, &["listset", &path]) {
            Ok(o) if o.ok() => {
                let got: Vec<String> = String::from_utf8_lossy(&o.stdout).lines().map(|s| s.to_string()).collect();
                if got != want_samples {
                    return Report { verdict: Verdict::Fail(format!("ragc listset prints {:?}", got.iter().take(6).collect::<Vec<_>>())), ..rep };
                }
            }
            Ok(o) => return Report { verdict: Verdict::Fail(format!("ragc listset failed: {}", o.describe())), ..rep },
            Err(err) => return Report::inconclusive(format!("cannot run ragc: {}", err)),
        }
        let s = &c.samples[(crate::util::stable_hash(c) / 3) as usize % c.samples.len()];
        match pipeline::cli(&ctx.ragc, &["listctg", &path, &s.name]) {
            Ok(o) if o.ok() => {
                let got: Vec<String> = String::from_utf8_lossy(&o.stdout).lines().map(|s| s.to_string()).collect();
                let want: Vec<String> = s.contigs.iter().map(|r| format!("{}\t{}", s.name, r.header)).collect();
                if got != want {
                    return Report { verdict: Verdict::Fail(format!("ragc listctg {:?} prints {:?}, expected {:?}", s.name, got.iter().take(3).collect::<Vec<_>>(), want.iter().take(3).collect::<Vec<_>>())), ..rep };
                }
                rep.labels.push("cli-listings-compared");
            }
            Ok(o) => return Report { verdict: Verdict::Fail(format!("ragc listctg failed: {}", o.describe())), ..rep },
            Err(err) => return Report::inconclusive(format!("cannot run ragc: {}", err)),
        }
    }
    rep
}

// ------------------------------------------------------------- generators --

#[derive(Clone, Debug)]
enum FieldOp {
    Same,
    Replace(String),
    Mutate(Vec<(u16, u8)>),
    Empty,
    LongRun(u16, u8),
    Grow(String),
}

fn field_text() -> impl Strategy<Value = String> {
    prop_oneof![
        4 => "[!-~]{1,12}",
        2 => "[a-z0-9=_.:-]{1,8}",
        1 => "[!-~]{40,120}",
        1 => "[a-z]{1,3}\t[a-z]{1,3}",
        1 => "[!-~]{250,330}",
    ]
}

fn field_op() -> impl Strategy<Value = FieldOp> {
    prop_oneof![
        5 => Just(FieldOp::Same),
        3 => field_text().prop_map(FieldOp::Replace),
        5 => prop::collection::vec((any::<u16>(), 33u8..127), 1..4).prop_map(FieldOp::Mutate),
        1 => Just(FieldOp::Empty),
        2 => (prop_oneof![Just(99u16), Just(100u16), Just(101u16), Just(199u16), Just(200u16), Just(201u16), 95u16..310], 33u8..127).prop_map(|(n, c)| FieldOp::LongRun(n, c)),
        2 => "[!-~]{1,3}".prop_map(FieldOp::Grow),
    ]
}

fn apply_field(prev: &str, op: &FieldOp) -> String {
    match op {
        FieldOp::Same => prev.to_string(),
        FieldOp::Replace(s) => s.clone(),
        FieldOp::Mutate(edits) => {
            let mut b = prev.as_bytes().to_vec();
            if b.is_empty() {
                return "m".to_string();
            }
            for (p, c) in edits {
                let i = crate::util::scale(*p, b.len());
                b[i] = *c;
            }
            String::from_utf8(b).unwrap()
        }
        FieldOp::Empty => String::new(),
        FieldOp::LongRun(n, c) => {
            // same length as a previous long run => the run-length coder sees > 100 equal characters
            let mut s = "r".repeat(*n as usize);
            s.push(*c as char);
            s
        }
        FieldOp::Grow(s) => format!("{}{}", prev, s),
    }
}

fn names_strategy(max_names: usize) -> impl Strategy<Value = Vec<String>> {
    let first = prop::collection::vec(field_text(), 1..6);
    let step = (prop::collection::vec(field_op(), 1..6), prop_oneof![8 => Just(0i8), 1 => Just(1i8), 1 => Just(-1i8)], field_text());
    (first, prop::collection::vec(step, 0..max_names)).prop_map(|(first, steps)| {
        let mut names: Vec<String> = Vec::new();
        let mut fields = first;
        names.push(fields.join(" "));
        for (ops, delta, extra) in steps {
            let mut next: Vec<String> = fields.iter().enumerate().map(|(i, f)| apply_field(f, &ops[i % ops.len()])).collect();
            if delta > 0 {
                next.push(extra);
            } else if delta < 0 && next.len() > 1 {
                next.pop();
            }
            let name = next.join(" ");
            fields = next;
            if !name.is_empty() && !names.contains(&name) {
                names.push(name);
            }
        }
        names
    })
}

#[derive(Clone, Debug)]
enum IdOp {
    Next,
    Same,
    Zero,
    Back(u8),
    Jump(u8),
    Far(u32),
}

fn descs_strategy(segment_size: u32, k: u32) -> impl Strategy<Value = Vec<(u8, IdOp, u8, bool, u32)>> {
    let idop = prop_oneof![
        6 => Just(IdOp::Next),
        2 => Just(IdOp::Same),
        2 => Just(IdOp::Zero),
        2 => (1u8..20).prop_map(IdOp::Back),
        2 => (2u8..60).prop_map(IdOp::Jump),
        1 => (0u32..1_000_000).prop_map(IdOp::Far),
    ];
    let pred = segment_size + k;
    let len = prop_oneof![
        4 => (0u32..40).prop_map(move |d| pred.saturating_sub(20) + d),
        3 => 0u32..(2 * pred + 50),
        1 => Just(0u32),
        1 => Just(u32::MAX / 2),
        1 => (0u32..4).prop_map(move |d| 2 * pred + d - 2),
        2 => k..(k + 300),
    ];
    prop::collection::vec((any::<u8>(), idop, 0u8..3, any::<bool>(), len), 0..30)
}


/// libFuzzer leg (codec layer): a catalogue read from the bytes. Names are printable
/// ASCII (plus tab), non-empty and unique within their sample, as every caller guarantees.
pub fn from_fuzz(data: &[u8]) -> Catalog {
    use crate::fuzzing::Cur;
    let mut c = Cur::new(data);
    let b0 = c.u8();
    let segment_size = if b0 & 1 == 1 { 60000 } else { 10 + (c.u16() % 4990) as u32 };
    let k = 9 + (c.u8() % 24) as u32;
    let batch = 1 + (c.u8() % 59) as u16;
    let np = 1 + c.u8() % 6;
    let mut pool = Vec::new();
    for _ in 0..np {
        let sel = c.u8() % 9;
        pool.push(match sel {
            0 | 1 => (c.u8() % 16) as u32,
            2..=6 => 16 + (c.u8() as u32 % 184),
            7 => 200 + c.u32() % 99_800,
            _ => 100_000,
        });
    }
    let pred = segment_size + k;
    let ns = 1 + c.u8() % 8;
    let mut last: std::collections::BTreeMap<u32, u32> = Default::default();
    let mut samples = Vec::new();
    let ch = |b: u8| -> char {
        match b % 100 {
            0..=94 => (0x20 + b % 100) as char,
            95 | 96 => ' ',
            97 => '\t',
            _ => '=',
        }
    };
    for si in 0..ns {
        if c.is_empty() && si > 0 {
            break;
        }
        let nc = 1 + c.u8() % 12;
        let mut contigs: Vec<(String, Vec<D>)> = Vec::new();
        let mut prev = String::new();
        for ci in 0..nc {
            if c.is_empty() && ci > 0 {
                break;
            }
            let op = c.u8() % 6;
            let mut name: String = match op {
                0 | 1 => {
                    let l = 1 + (c.u8() % 48) as usize;
                    c.take(l).iter().map(|&b| ch(b)).collect()
                }
                2 => {
                    // previous name with point mutations (same lengths => "same field" / char-level deltas)
                    let mut b: Vec<char> = prev.chars().collect();
                    let nm = 1 + c.u8() % 3;
                    for _ in 0..nm {
                        if !b.is_empty() {
                            let i = (c.u8() as usize * b.len()) >> 8;
                            b[i] = ch(c.u8());
                        }
                    }
                    b.into_iter().collect()
                }
                3 => format!("{}{}", prev, ch(c.u8())),
                4 => {
                    // a long run of one character, length around the run-marker limits
                    let n = [99usize, 100, 101, 102, 199, 200, 201, 250][(c.u8() % 8) as usize];
                    let mut s: String = std::iter::repeat(ch(c.u8())).take(n).collect();
                    s.push(' ');
                    s.push(ch(c.u8()));
                    s
                }
                _ => {
                    // drop or add a field
                    let mut f: Vec<&str> = prev.split(' ').collect();
                    if c.u8() & 1 == 0 && f.len() > 1 {
                        f.pop();
                        f.join(" ")
                    } else {
                        format!("{} f{}", prev, c.u8())
                    }
                }
            };
            if name.is_empty() {
                name.push('n');
            }
            if contigs.iter().any(|(n, _)| *n == name) {
                name = format!("{}#{}", name, ci);
            }
            let nd = c.u8() % 10;
            let mut ds = Vec::new();
            for _ in 0..nd {
                let g = pool[c.u8() as usize % pool.len()];
                let prevg = last.get(&g).copied();
                let opb = c.u8();
                let arg = c.u8() as u32;
                let id = match (opb % 8, prevg) {
                    (7, _) => c.u32() % 1_000_000,
                    (5 | 6, None) => 2 + arg % 58,
                    (_, None) => if g < 16 { 1 } else { 0 },
                    (0 | 1 | 2, Some(p)) => p + 1,
                    (3, Some(p)) => p,
                    (4, _) => 0,
                    (5, Some(p)) => p.saturating_sub(1 + arg % 19),
                    (_, Some(p)) => p + 2 + arg % 58,
                };
                last.insert(g, id);
                let lb = c.u8();
                let len = match lb % 8 {
                    0 | 1 | 2 => pred.saturating_sub(20) + (c.u8() as u32 % 40),
                    3 | 4 => c.u32() % (2 * pred + 50),
                    5 => 0,
                    6 => u32::MAX / 2,
                    _ => k + (c.u16() as u32 % 300),
                };
                ds.push(D { g, id, rc: opb & 0x80 != 0, len });
            }
            prev = name.clone();
            contigs.push((name, ds));
        }
        samples.push((format!("S{}", si), contigs));
    }
    Catalog { segment_size, k, batch, samples }
}

pub fn fuzz_seeds() -> Vec<Vec<u8>> {
    vec![
        vec![0, 100, 0, 12, 3, 2, 3, 40, 0, 7, 2, 3, 0, 10, b'c', b'h', b'r', b'1', 95, b'l', b'e', b'n', b'=', b'5', 3, 0, 0, 0, 0, 0, 1, 0, 1, 5, 1, 0, 3, 2, 1, 7, 50, 2, 0, 0, 3, b'x', 1, 0, 4, 0, 2, 3, 3, 0, 0, 0, 4, 1, 65, 66, 0, 5, 0, 9, 0],
        vec![1, 20, 5, 1, 0, 3, 1, 3, 0, 3, b'a', b'b', b'c', 2, 0, 0, 0, 0, 0, 0, 0, 7, 1, 2, 3, 4, 0, 2, 1, 5, 9, 0],
    ]
}

fn catalog_strategy(max_samples: usize, max_names: usize) -> impl Strategy<Value = Catalog> {
    let params = (prop_oneof![Just(60000u32), 10u32..5000], 9u32..=32);
    params.prop_flat_map(move |(segment_size, k)| {
        let group_pool = prop::collection::vec(prop_oneof![2 => 0u32..16, 5 => 16u32..200, 1 => 200u32..100_000, 1 => Just(100_000u32)], 1..7);
        let sample = (names_strategy(max_names), prop::collection::vec(descs_strategy(segment_size, k), 1..8));
        (Just(segment_size), Just(k), group_pool, prop::collection::vec(sample, 1..max_samples), 1u16..60, "[!-~]{1,10}")
            .prop_map(|(segment_size, k, pool, samples, batch, prefix)| {
                let mut last: std::collections::BTreeMap<u32, u32> = Default::default();
                let mut out = Vec::new();
                for (si, (names, dlists)) in samples.into_iter().enumerate() {
                    let mut contigs = Vec::new();
                    for (ci, name) in names.into_iter().enumerate() {
                        let dl = &dlists[ci % dlists.len()];
                        let mut ds = Vec::new();
                        for (gi, op, _, rc, len) in dl {
                            let g = pool[*gi as usize % pool.len()];
                            let prev = last.get(&g).copied();
                            let id = match (op, prev) {
                                (_, None) => match op {
                                    IdOp::Far(x) => *x,
                                    IdOp::Jump(j) => *j as u32,
                                    _ => if g < 16 { 1 } else { 0 },
                                },
                                (IdOp::Next, Some(p)) => p + 1,
                                (IdOp::Same, Some(p)) => p,
                                (IdOp::Zero, _) => 0,
                                (IdOp::Back(b), Some(p)) => p.saturating_sub(*b as u32),
                                (IdOp::Jump(j), Some(p)) => p + *j as u32,
                                (IdOp::Far(x), _) => *x,
                            };
                            last.insert(g, id);
                            ds.push(D { g, id, rc: *rc, len: *len });
                        }
                        contigs.push((name, ds));
                    }
                    out.push((format!("{}{}", prefix, si), contigs));
                }
                Catalog { segment_size, k, batch, samples: out }
            })
    })
}

pub fn run(ctx: &Ctx, stats: &mut Stats) {
    let n1 = ctx.tier.pick(60_000, 2_000_000);
    run_prop(ctx, stats, "codec", n1, catalog_strategy(8, 24), &check_codec);
    // a few large tables: up to 130 samples, up to 400 names per sample
    let n1b = ctx.tier.pick(600, 20_000);
    run_prop(ctx, stats, "codec-large", n1b, catalog_strategy(130, 400), &check_codec);
    let c2 = ctx.clone();
    let n2 = ctx.tier.pick(160, 3_000);
    run_prop(ctx, stats, "batches", n2, catalog_strategy(130, 12), &move |c: &Catalog| check_batches(&c2, c));
    let c3 = ctx.clone();
    let n3 = ctx.tier.pick(192, 6_000);
    let cfg = GenCfg { max_contig: 3000, max_samples: 5, many_samples_pct: 10, single_file: None, vary_presentation: false, swarm_pct: 0 };
    run_prop(ctx, stats, "end-to-end", n3, gen::collection_strategy(cfg), &move |c: &Collection| check_e2e(&c3, c));
    if ctx.tier == Tier::Thorough || std::env::var("VERIF_FUZZ").is_ok() {
        crate::fuzzing::run_stage(ctx, stats, "codec", ctx.tier.pick(200_000, 3_000_000));
    }
}

pub fn replay(ctx: &Ctx, stage: &str, case: &Value) -> Report {
    if stage == "end-to-end" {
        return match from_case::<Collection>(case) {
            Ok(c) => check_e2e(ctx, &c),
            Err(e) => Report::fail(e),
        };
    }
    match from_case::<Catalog>(case) {
        Ok(c) => {
            if stage == "batches" {
                check_batches(ctx, &c)
            } else {
                check_codec(&c)
            }
        }
        Err(e) => Report::fail(e),
    }
}

pub const INFO: PropInfo = PropInfo {
    id: "C03",
    level: "exploration",
    rule: "three layers, same oracle 'read back = written'. (1) codec (hook H1): catalogues of 1..7 (and up to 129) samples, each with a name sequence built by mutating the previous name field-wise (same field, same-length field with changed characters, different-length field, runs of 99/100/101/199/200/201/95..310 equal characters, empty fields from double blanks, tabs, fields of 250..330 characters, field count growing / shrinking) and descriptor lists over a small pool of group ids (raw 0..15, 16.., 100000) whose in-group ids advance, repeat, return to 0, go back, jump or are far away, lengths around segment_size+k, 0, 2*(segment_size+k)+-2 and 2^31; (de)serialised in batches of 1..59 samples; compared with ragc's own deserialiser AND with the independent decoder of the same bytes. (2) 50-sample batches through store_batch_sample_names/store_contig_batch into an Archive file, reopened and loaded batch by batch. (3) end to end: generated collections through `ragc create`; list_samples / list_contigs / get_all_segments (== the independent decoder's table) and `ragc listset` / `listctg`. Non-trivial (layers 1,2) = consecutive names share one field and differ in another AND some group's ids do not simply increase; distinct = distinct catalogue / collection.",
    assumptions: &["group ids <= 100000 (the predictor table is indexed by group id)", "in-group ids <= 10^6, descriptor lengths <= 2^31", "sample names unique, contig names unique within a sample, no NUL"],
    needs_cli: true,
    needs_checked: false,
    max_shards: 16,
    shrink_iters: 150,
    watchdog_s: (1800, 14400),
    run,
    replay,
};
