//! C11 — splitter selection: deterministic, strand-symmetric, singleton-only, spaced.

use crate::engine::*;
use crate::naive;
use crate::util::{codes_to_letters, SplitMix};
use ahash::AHashSet;
use proptest::prelude::*;
use ragc_core::{determine_splitters, determine_splitters_streaming, determine_splitters_streaming_first_sample, split_at_splitters_with_size};
use serde::{Deserialize, Serialize};
use serde_json::Value;
use std::collections::BTreeMap;
use std::io::Write;
use std::sync::OnceLock;

#[derive(Clone, Debug, Hash, Serialize, Deserialize)]
pub struct SplCase {
    pub contigs: Vec<Vec<u8>>,
    pub k: u8,
    pub segment_size: u16,
    pub perm_seed: u64,
    pub rc_mask: u16,
    /// also exercise the file-based variants and the thread pools (slower)
    pub files: bool,
    pub gz: bool,
}

type Triple = (Vec<u64>, Vec<u64>, Vec<u64>);

fn sorted(t: (AHashSet<u64>, AHashSet<u64>, AHashSet<u64>)) -> Triple {
    let f = |s: AHashSet<u64>| {
        let mut v: Vec<u64> = s.into_iter().collect();
        v.sort_unstable();
        v
    };
    (f(t.0), f(t.1), f(t.2))
}

fn pools() -> &'static Vec<(usize, rayon::ThreadPool)> {
    static P: OnceLock<Vec<(usize, rayon::ThreadPool)>> = OnceLock::new();
    P.get_or_init(|| [1usize, 2, 4, 16].iter().map(|&n| (n, rayon::ThreadPoolBuilder::new().num_threads(n).build().expect("pool"))).collect())
}

fn write_fasta(path: &std::path::Path, records: &[(String, &Vec<u8>)], gz: bool, width: usize) -> std::io::Result<()> {
    let mut text = Vec::new();
    for (h, seq) in records {
        text.extend_from_slice(format!(">{}\n", h).as_bytes());
        let letters = codes_to_letters(seq);
        for chunk in letters.as_bytes().chunks(width.max(1)) {
            text.extend_from_slice(chunk);
            text.push(b'\n');
        }
    }
    let f = std::fs::File::create(path)?;
    if gz {
        let mut e = flate2::write::GzEncoder::new(f, flate2::Compression::fast());
        e.write_all(&text)?;
        e.finish()?;
    } else {
        let mut f = f;
        f.write_all(&text)?;
    }
    Ok(())
}

pub fn check_in(ctx: &Ctx, case: &SplCase) -> Report {
    let k = case.k as usize;
    let seg = case.segment_size as usize;
    let base = sorted(determine_splitters(&case.contigs, k, seg));
    let (spl, single, dup) = (&base.0, &base.1, &base.2);

    // naive counting over strings
    let mut counts: BTreeMap<u64, u32> = BTreeMap::new();
    for c in &case.contigs {
        for (_, w) in naive::windows(c, k) {
            *counts.entry(naive::canonical(w)).or_insert(0) += 1;
        }
    }
    let want_single: Vec<u64> = counts.iter().filter(|(_, &n)| n == 1).map(|(&c, _)| c).collect();
    let want_dup: Vec<u64> = counts.iter().filter(|(_, &n)| n >= 2).map(|(&c, _)| c).collect();
    if single != &want_single {
        return Report::fail(format!("singleton set has {} k-mers, naive count says {}", single.len(), want_single.len()));
    }
    if dup != &want_dup {
        return Report::fail(format!("duplicate set has {} k-mers, naive count says {}", dup.len(), want_dup.len()));
    }
    if let Some(bad) = spl.iter().find(|s| single.binary_search(s).is_err()) {
        return Report::fail(format!("splitter {:#018x} does not occur exactly once in the reference", bad));
    }
    // spacing: interior segments of every reference contig have >= segment_size bases
    let set: AHashSet<u64> = spl.iter().copied().collect();
    let mut max_interior = 0usize;
    let mut end_pick = false;
    for (ci, c) in case.contigs.iter().enumerate() {
        let segs = split_at_splitters_with_size(c, &set, k, seg);
        if segs.len() > 3 {
            for (i, s) in segs.iter().enumerate().take(segs.len() - 2).skip(1) {
                if s.data.len() < seg {
                    return Report::fail(format!("contig {}: interior segment {} of {} has {} bases < segment size {}", ci, i, segs.len(), s.data.len(), seg));
                }
            }
            max_interior = max_interior.max(segs.len() - 3);
        }
        if segs.len() >= 2 && segs[segs.len() - 1].data.len() < seg + k {
            end_pick = true;
        }
    }
    // contig order and strand do not matter for the singleton / duplicate sets
    let mut order: Vec<usize> = (0..case.contigs.len()).collect();
    let mut r = SplitMix::new(case.perm_seed);
    for i in (1..order.len()).rev() {
        order.swap(i, r.below(i as u64 + 1) as usize);
    }
    let permuted: Vec<Vec<u8>> = order
        .iter()
        .map(|&i| if (case.rc_mask >> (i % 16)) & 1 == 1 { naive::revcomp_keep(&case.contigs[i]) } else { case.contigs[i].clone() })
        .collect();
    let p = sorted(determine_splitters(&permuted, k, seg));
    if &p.1 != single || &p.2 != dup {
        return Report::fail("singleton / duplicate sets change when contigs are permuted or reverse-complemented".to_string());
    }
    if let Some(bad) = p.0.iter().find(|s| single.binary_search(s).is_err()) {
        return Report::fail(format!("after permutation / reverse complement: splitter {:#018x} is not a singleton", bad));
    }
    let mut rep = Report::pass(spl.len() >= 2 && !dup.is_empty())
        .label_if(max_interior > 3, "contig>3-interior-segments")
        .label_if(end_pick, "short-last-segment")
        .label_if(case.contigs.iter().any(|c| c.iter().any(|&b| b > 3)), "non-ACGT-inside")
        .label_if(case.contigs.iter().any(|c| c.len() < k), "contig<k")
        .label_if(spl.is_empty(), "no-splitters")
        .label_if(case.rc_mask != 0, "some-contigs-revcomp");
    if !case.files {
        return rep;
    }
    // repeated calls and rayon pools of 1/2/4/16 threads give the same triple
    for (n, pool) in pools() {
        for round in 0..2 {
            let t = sorted(pool.install(|| determine_splitters(&case.contigs, k, seg)));
            if t != base {
                return Report::fail(format!("determine_splitters differs in a {}-thread pool (call {})", n, round));
            }
        }
    }
    rep = rep.label("pools+files");
    // file-based variants. Records without bases are left out (the reader's behaviour on them is C16's subject).
    let dir = ctx.scratch("c11");
    let ext = if case.gz { "fa.gz" } else { "fa" };
    let recs: Vec<(String, &Vec<u8>)> = case.contigs.iter().enumerate().filter(|(_, c)| !c.is_empty()).map(|(i, c)| (format!("ref#0#ctg{}", i), c)).collect();
    if recs.is_empty() {
        return rep;
    }
    let width = 1 + (case.perm_seed % 97) as usize;
    let p1 = dir.file(&format!("ref.{}", ext));
    if let Err(e) = write_fasta(&p1, &recs, case.gz, width) {
        return Report::fail(format!("harness: cannot write FASTA: {}", e));
    }
    let streaming = match determine_splitters_streaming(&p1, k, seg) {
        Ok(t) => sorted(t),
        Err(e) => return Report::fail(format!("determine_splitters_streaming failed: {}", e)),
    };
    if streaming != base {
        return Report::fail(format!("streaming variant differs from in-memory: {} / {} / {} vs {} / {} / {}", streaming.0.len(), streaming.1.len(), streaming.2.len(), base.0.len(), base.1.len(), base.2.len()));
    }
    // first-sample variant: same reference followed by another sample that must be ignored
    let extra: Vec<u8> = case.contigs.iter().flatten().copied().rev().collect();
    let mut recs2 = recs.clone();
    let extra_name = "other#0#ctg0".to_string();
    if !extra.is_empty() {
        recs2.push((extra_name, &extra));
    }
    let p2 = dir.file(&format!("pan.{}", ext));
    if let Err(e) = write_fasta(&p2, &recs2, case.gz, width) {
        return Report::fail(format!("harness: cannot write FASTA: {}", e));
    }
    let first = match determine_splitters_streaming_first_sample(&p2, k, seg) {
        Ok(t) => sorted(t),
        Err(e) => return Report::fail(format!("determine_splitters_streaming_first_sample failed: {}", e)),
    };
    if first != base {
        return Report::fail(format!("first-sample variant differs from in-memory: {} / {} / {} vs {} / {} / {}", first.0.len(), first.1.len(), first.2.len(), base.0.len(), base.1.len(), base.2.len()));
    }
    rep.label_if(case.gz, "gz")
}

fn contig_strategy() -> impl Strategy<Value = Vec<u8>> {
    let short = prop::collection::vec(0u8..4, 0..40);
    let rnd = (any::<u64>(), 40usize..5000, 0u32..20_000).prop_map(|(s, n, n_ppm)| {
        let mut r = SplitMix::new(s);
        let mut v = Vec::with_capacity(n);
        while v.len() < n {
            if r.chance(n_ppm as u64 / 8) {
                let run = 1 + r.below(20) as usize;
                let code = if r.below(4) == 0 { 5 + r.below(11) as u8 } else { 4 };
                v.extend(std::iter::repeat(code).take(run));
            } else {
                v.push(r.below(4) as u8);
            }
        }
        v.truncate(n);
        v
    });
    // internal repeats: a unit copied several times with unique spacers
    let rep = (any::<u64>(), 20usize..300, 2usize..6, 0usize..400).prop_map(|(s, unit, copies, spacer)| {
        let mut r = SplitMix::new(s);
        let u: Vec<u8> = (0..unit).map(|_| r.below(4) as u8).collect();
        let mut v = Vec::new();
        for _ in 0..copies {
            v.extend_from_slice(&u);
            v.extend((0..spacer).map(|_| r.below(4) as u8));
        }
        v
    });
    prop_oneof![2 => short, 6 => rnd, 2 => rep]
}

fn strat(files_weight: f64) -> impl Strategy<Value = SplCase> {
    let k = prop_oneof![2 => 3u8..=32, 3 => 9u8..=21, 1 => Just(31u8), 1 => Just(32u8)];
    let seg = prop_oneof![3 => 10u16..200, 2 => 200u16..2000];
    (prop::collection::vec(contig_strategy(), 1..8), prop::collection::vec((0u8..8, any::<bool>()), 0..3), k, seg, any::<u64>(), any::<u16>(), prop::bool::weighted(files_weight), any::<bool>())
        .prop_map(|(mut contigs, dups, k, segment_size, perm_seed, rc_mask, files, gz)| {
            // duplicated contigs (optionally reverse-complemented): every k-mer in them becomes a duplicate
            for (i, rc) in dups {
                let src = contigs[i as usize % contigs.len()].clone();
                contigs.push(if rc { naive::revcomp_keep(&src) } else { src });
            }
            SplCase { contigs, k, segment_size, perm_seed, rc_mask: if perm_seed % 3 == 0 { 0 } else { rc_mask }, files, gz }
        })
}

pub fn run(ctx: &Ctx, stats: &mut Stats) {
    let n = ctx.tier.pick(24_000, 300_000);
    let c2 = ctx.clone();
    run_prop(ctx, stats, "random", n, strat(0.25), &move |c: &SplCase| check_in(&c2, c));
}

pub fn replay(ctx: &Ctx, _stage: &str, case: &Value) -> Report {
    match from_case::<SplCase>(case) {
        Ok(c) => check_in(ctx, &c),
        Err(e) => Report::fail(e),
    }
}

pub const INFO: PropInfo = PropInfo {
    id: "C11",
    level: "exploration",
    rule: "cases = reference of 1..10 contigs (0..5000 bases; N / IUPAC runs; internal repeats; whole contigs duplicated, optionally reverse-complemented; contigs shorter than k) x k in 3..32 x segment size 10..2000. Oracles: naive string counting of canonical k-mers (singletons = count 1, duplicates = count >= 2, splitters subset of singletons); metamorphic: a random permutation of the contigs with a random subset reverse-complemented leaves both sets unchanged; interior segments (all but the first and the last two) of every reference contig segmented with its own splitters have >= segment-size bases; for a quarter of the cases the in-memory result is compared with 8 further calls in rayon pools of 1/2/4/16 threads, with the streaming variant on a PanSN FASTA (plain or gzip, line width 1..97) and with the first-sample variant on the same file followed by a second sample. Non-trivial = at least two splitters chosen and at least one duplicate k-mer; distinct = distinct case.",
    assumptions: &["FASTA files given to the file-based variants contain no record without bases (C16 covers those)"],
    needs_cli: false,
    needs_checked: false,
    max_shards: 16,
    shrink_iters: 120,
    watchdog_s: (900, 10800),
    run,
    replay,
};
