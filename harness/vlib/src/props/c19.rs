//! C19 — extraction is invariant under how the input is presented.

use crate::engine::*;
use crate::fasta;
use crate::gen::{self, Collection, GenCfg, Presentation};
use crate::pipeline;
use crate::util::sha256_hex;
use proptest::prelude::*;
use serde::{Deserialize, Serialize};
use serde_json::Value;

#[derive(Clone, Debug, Hash, Serialize, Deserialize)]
pub struct PresCase {
    pub collection: Collection,
    pub variants: Vec<Presentation>,
    /// also present the (PanSN) collection in the other mode: per-sample files <-> one file
    pub other_mode: bool,
}

struct Made {
    what: String,
    bytes: Vec<u8>,
    view: fasta::Expected,
    listset: Vec<String>,
}

fn make(ctx: &Ctx, c: &Collection, p: &Presentation, single_file: bool, tag: &str) -> Result<Result<Made, String>, Report> {
    let dir = ctx.scratch("c19");
    let inputs = fasta::write_inputs_as(c, &dir.path.join("in"), p, single_file).map_err(|e| Report::inconclusive(format!("harness: cannot write inputs: {}", e)))?;
    let archive = dir.file("out.agc");
    let mut params = c.params.clone();
    params.single_file = single_file;
    let o = pipeline::cli_create(&ctx.ragc, &params, &archive, &inputs).map_err(|e| Report::inconclusive(format!("cannot run ragc: {}", e)))?;
    if o.timed_out {
        return Err(Report::inconclusive("ragc create timed out".to_string()));
    }
    if !o.ok() {
        return Ok(Err(format!("presentation {} is rejected by create: {}", tag, o.describe())));
    }
    let bytes = std::fs::read(&archive).map_err(|e| Report::fail(format!("create exited 0 without an archive: {}", e)))?;
    let view = match guarded(|| pipeline::read_all(&archive)) {
        Ok(Ok(v)) => v,
        Ok(Err(e)) => return Ok(Err(format!("presentation {}: archive cannot be extracted: {}", tag, e))),
        Err(p) => return Ok(Err(format!("presentation {}: extraction panicked: {}", tag, p))),
    };
    let ls = pipeline::cli(&ctx.ragc, &["listset", &archive.to_string_lossy()]).map_err(|e| Report::inconclusive(format!("cannot run ragc: {}", e)))?;
    if !ls.ok() {
        return Ok(Err(format!("presentation {}: listset fails: {}", tag, ls.describe())));
    }
    let listset = String::from_utf8_lossy(&ls.stdout).lines().map(|s| s.to_string()).collect();
    Ok(Ok(Made { what: tag.to_string(), bytes, view, listset }))
}

fn describe(p: &Presentation) -> String {
    format!(
        "{}{}{}{}{}",
        match p.gz {
            0 => "plain",
            1 => "gz",
            _ => "multi-gz",
        },
        if p.width == 0 { ",unwrapped".to_string() } else { format!(",w{}", p.width) },
        if p.crlf { ",crlf" } else { "" },
        match p.case_mode {
            0 => "",
            1 => ",lower",
            _ => ",mixed",
        },
        if p.final_newline { "" } else { ",no-final-nl" }
    )
}

pub fn check_in(ctx: &Ctx, case: &PresCase) -> Report {
    let c = &case.collection;
    let base_mode = c.params.single_file;
    let mut rep = Report::pass(false).label(if base_mode { "mode:single-file" } else { "mode:multi-file" });
    let mut made: Vec<Made> = Vec::new();
    let mut all: Vec<&Presentation> = vec![&c.pres];
    all.extend(case.variants.iter());
    for (i, p) in all.iter().enumerate() {
        // file names must agree up to ".gz": keep the base presentation's extension family
        let mut p2 = (*p).clone();
        p2.ext = c.pres.ext;
        match make(ctx, c, &p2, base_mode, &format!("#{} [{}]", i, describe(&p2))) {
            Ok(Ok(m)) => made.push(m),
            Ok(Err(msg)) => {
                // a presentation of valid IUPAC input that create refuses while another is accepted is a difference
                if i > 0 && !made.is_empty() {
                    return Report { verdict: Verdict::Fail(format!("{} although {} is accepted", msg, made[0].what)), ..rep };
                }
                return rep.label("create-failed");
            }
            Err(r) => return r,
        }
    }
    let first = &made[0];
    let dims = |a: &Presentation, b: &Presentation| (a.gz != b.gz) as u8 + (a.width != b.width) as u8 + (a.crlf != b.crlf) as u8 + (a.case_mode != b.case_mode) as u8;
    let mut max_dims = 0;
    for (i, m) in made.iter().enumerate().skip(1) {
        if m.listset != first.listset {
            return Report { verdict: Verdict::Fail(format!("listset differs between {} and {}: {:?} vs {:?}", first.what, m.what, first.listset.iter().take(5).collect::<Vec<_>>(), m.listset.iter().take(5).collect::<Vec<_>>())), ..rep };
        }
        if let Some(d) = fasta::first_difference(&first.view, &m.view) {
            return Report { verdict: Verdict::Fail(format!("extraction differs between {} and {}: {}", first.what, m.what, d)), ..rep };
        }
        max_dims = max_dims.max(dims(all[0], all[i]));
        // presentations that differ only in compression / wrapping / line ends / case: byte-identical archives
        if m.bytes != first.bytes {
            // two runs of the very same presentation must agree before a difference can be blamed on presentation
            let mut p0 = c.pres.clone();
            p0.ext = c.pres.ext;
            match make(ctx, c, &p0, base_mode, "repeat of #0") {
                Ok(Ok(again)) if again.bytes != first.bytes => {
                    rep = rep.label("same-presentation-not-byte-stable(C04)");
                }
                Ok(Ok(_)) => {
                    return Report { verdict: Verdict::Fail(format!("archives differ between {} (sha256 {}) and {} (sha256 {}) although two runs of the first are identical", first.what, &sha256_hex(&first.bytes)[..12], m.what, &sha256_hex(&m.bytes)[..12])), ..rep };
                }
                Ok(Err(msg)) => return Report { verdict: Verdict::Fail(msg), ..rep },
                Err(r) => return r,
            }
        } else {
            rep = rep.label("byte-identical-pair");
        }
    }
    if case.other_mode && c.pansn {
        match make(ctx, c, &c.pres, !base_mode, "other mode") {
            Ok(Ok(m)) => {
                if m.listset != first.listset {
                    return Report { verdict: Verdict::Fail(format!("sample list differs between one PanSN file and per-sample files: {:?} vs {:?}", first.listset.iter().take(5).collect::<Vec<_>>(), m.listset.iter().take(5).collect::<Vec<_>>())), ..rep };
                }
                if let Some(d) = fasta::first_difference(&first.view, &m.view) {
                    return Report { verdict: Verdict::Fail(format!("extraction differs between one PanSN file and per-sample files: {}", d)), ..rep };
                }
                rep = rep.label("pansn-file-vs-per-sample-files");
            }
            Ok(Err(msg)) => return Report { verdict: Verdict::Fail(format!("{} although the same records are accepted in the other mode", msg)), ..rep },
            Err(r) => return r,
        }
    }
    // and the content is the input (ties the equivalence class to the truth)
    if let Some(d) = fasta::first_difference(&fasta::expected_of(c), &first.view) {
        rep = rep.label("differs-from-input(C01)");
        let _ = d;
    }
    let multi_in_header = all.iter().any(|p| p.gz == 2);
    rep.nontrivial = max_dims >= 2 && (multi_in_header || all.iter().any(|p| p.width == 1));
    rep.label_if(all.iter().any(|p| p.gz == 2), "multi-member-gz").label_if(all.iter().any(|p| p.width == 1), "width-1").label_if(all.iter().any(|p| p.crlf), "crlf").label_if(all.iter().any(|p| p.case_mode != 0), "lower/mixed").label_if(max_dims >= 2, "differ-in>=2-dimensions")
}

fn strat() -> impl Strategy<Value = PresCase> {
    let cfg = GenCfg { max_contig: 2500, max_samples: 4, many_samples_pct: 0, single_file: None, vary_presentation: true, swarm_pct: 0 };
    (gen::collection_strategy(cfg), prop::collection::vec(gen::presentation_strategy(), 2..4), prop::bool::weighted(0.5)).prop_map(|(mut collection, variants, other_mode)| {
        // byte identity in single-file mode is only claimed below pack-cardinality contigs
        collection.params.pack = 50;
        if collection.params.single_file && collection.n_contigs() >= 50 {
            collection.params.single_file = false;
        }
        PresCase { collection, variants, other_mode }
    })
}

pub fn run(ctx: &Ctx, stats: &mut Stats) {
    let c2 = ctx.clone();
    let n = ctx.tier.pick(192, 3_000);
    run_prop(ctx, stats, "presentations", n, strat(), &move |c: &PresCase| check_in(&c2, c));
}

pub fn replay(ctx: &Ctx, _stage: &str, case: &Value) -> Report {
    match from_case::<PresCase>(case) {
        Ok(c) => check_in(ctx, &c),
        Err(e) => Report::fail(e),
    }
}

pub const INFO: PropInfo = PropInfo {
    id: "C19",
    level: "exploration",
    rule: "cases = one generated collection x 3..4 presentations drawn from {plain, .gz, multi-member .gz with 1..4 member boundaries at arbitrary byte offsets (also inside header lines), for a quarter of the files moved to the next record start and for another quarter to the next line start} x line width {unwrapped, 1, 60, 80, 1..200, 100000} x {LF, CRLF} x {upper, lower, mixed case} x {final newline or not}, same mode and same file names up to '.gz'; for PanSN collections additionally the other mode (one PanSN file <-> one file per sample). All through the real `ragc create` (file-name -> sample-name rules included). Oracles (metamorphic): identical `ragc listset` output and identical extracted contigs across all presentations; byte-identical archives between presentations of the same mode (single-file cases have fewer than 50 contigs; a difference is only reported when two runs of the SAME presentation are byte-identical, otherwise it is labelled as C04's subject); one-file vs per-sample-files: sample list and extraction only. Non-trivial = two presentations differ in >= 2 dimensions and one is a multi-member gzip or a width-1 wrapping; distinct = distinct case.",
    assumptions: &["same preconditions on names as C01; per-sample file names are `<sample>.<ext>[.gz]` with ext in fa/fasta (fna only uncompressed), which is what the documented naming rule maps back to the sample name"],
    needs_cli: true,
    needs_checked: false,
    max_shards: 16,
    shrink_iters: 30,
    watchdog_s: (1800, 14400),
    run,
    replay,
};
