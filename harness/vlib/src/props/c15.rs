//! C15 — write failures during create are reported, never swallowed.

use crate::agcref;
use crate::engine::*;
use crate::fasta;
use crate::gen::{self, Collection, GenCfg};
use crate::pipeline::{self, run_with_fsize_limit};
use crate::util::SplitMix;
use serde::{Deserialize, Serialize};
use serde_json::Value;
use std::process::Command;
use std::time::Duration;

#[derive(Clone, Debug, Hash, Serialize, Deserialize)]
pub struct FaultCase {
    pub collection: Collection,
    /// check only these offsets (replay); None = the tier's offset set
    pub only: Option<Vec<u64>>,
    pub exhaustive: bool,
}

fn offsets_for(bytes: &[u8], exhaustive: bool, seed: u64, n_random: usize) -> (Vec<u64>, Vec<(u64, u64)>) {
    let len = bytes.len() as u64;
    let mut parts: Vec<(u64, u64)> = Vec::new();
    let mut footer_start = len;
    if let Ok(c) = agcref::Container::parse(bytes) {
        footer_start = c.footer_start as u64;
        for s in &c.streams {
            for p in &s.parts {
                parts.push((p.offset, p.size));
            }
        }
    }
    parts.sort();
    let mut v: Vec<u64> = Vec::new();
    let mut r = SplitMix::new(seed);
    if exhaustive {
        v.extend(0..len);
    } else if n_random <= 8 {
        // quick: a fixed-size family (about 30 offsets per archive)
        v.extend([0u64, 1]);
        v.extend((len.saturating_sub(12))..len); // the 8-byte length and the directory's last bytes
        for d in [-1i64, 0, 1] {
            v.push((footer_start as i64 + d).max(0) as u64);
        }
        v.push(footer_start + (len - footer_start) / 2);
        let mut ps = parts.clone();
        while ps.len() > 5 {
            let i = r.below(ps.len() as u64) as usize;
            ps.remove(i);
        }
        for (o, sz) in &ps {
            v.push(*o);
            v.push(*o + 1 + sz / 2); // strictly inside the part
        }
        for _ in 0..n_random {
            v.push(r.below(len.max(1)));
        }
    } else {
        v.extend([0u64, 1, 2]);
        v.extend((len.saturating_sub(64))..len); // footer tail and the 8-byte length
        let mut ps = parts.clone();
        while ps.len() > 40 {
            let i = r.below(ps.len() as u64) as usize;
            ps.remove(i);
        }
        for (o, sz) in &ps {
            for d in [-1i64, 0, 1] {
                let x = *o as i64 + d;
                if x >= 0 {
                    v.push(x as u64);
                }
            }
            v.push(*o + 1 + sz / 2);
        }
        for d in [-1i64, 0, 1, 2] {
            v.push((footer_start as i64 + d).max(0) as u64);
        }
        for _ in 0..n_random {
            v.push(r.below(len.max(1)));
        }
    }
    v.retain(|&x| x < len);
    v.sort_unstable();
    v.dedup();
    (v, parts)
}

pub fn check_in(ctx: &Ctx, case: &FaultCase, counters: &std::cell::Cell<[u64; 5]>) -> Report {
    let c = &case.collection;
    let dir = ctx.scratch("c15");
    let inputs = match fasta::write_inputs(c, &dir.path.join("in")) {
        Ok(i) => i,
        Err(e) => return Report::inconclusive(format!("harness: cannot write inputs: {}", e)),
    };
    // fault-free reference run
    let good = dir.file("good.agc");
    let base = match pipeline::cli_create(&ctx.ragc, &c.params, &good, &inputs) {
        Ok(o) => o,
        Err(e) => return Report::inconclusive(format!("cannot run ragc: {}", e)),
    };
    if !base.ok() {
        return if base.timed_out { Report::inconclusive("fault-free create timed out".to_string()) } else { Report::pass(false).label("create-failed") };
    }
    let bytes = match std::fs::read(&good) {
        Ok(b) => b,
        Err(e) => return Report::fail(format!("create exited 0 without an archive: {}", e)),
    };
    let len = bytes.len() as u64;
    let n_random = if ctx.tier == Tier::Quick { 4 } else { 40 };
    let (mut offsets, parts) = offsets_for(&bytes, case.exhaustive, crate::util::stable_hash(c), n_random);
    if let Some(only) = &case.only {
        offsets = only.clone();
    }
    let footer_start = agcref::Container::parse(&bytes).map(|c| c.footer_start as u64).unwrap_or(len);
    let params_file = dir.file("params.json");
    let _ = std::fs::write(&params_file, serde_json::to_string(&c.params).unwrap());
    let exe = std::env::current_exe().expect("exe");
    let mut rep = Report::pass(false).label(if c.params.single_file { "mode:single-file" } else { "mode:multi-file" }).label_if(case.exhaustive, "all-offsets");
    let mut cn = counters.get();
    let (mut in_part, mut in_dir, mut in_len8) = (false, false, false);
    let out = dir.file("faulty.agc");
    // control: a limit at / above the final size must not change anything
    for (i, limit) in offsets.iter().copied().chain([len, len + 4096]).enumerate() {
        let control = limit >= len;
        let use_lib = !control && i % 3 == 2;
        let _ = std::fs::remove_file(&out);
        let mut cmd;
        if use_lib {
            cmd = Command::new(&exe);
            cmd.args(["child", "create"]).arg(&params_file).arg(&out);
            for f in &inputs {
                cmd.arg(f);
            }
        } else {
            cmd = Command::new(&ctx.ragc);
            cmd.args(pipeline::create_args(&c.params, &out, &inputs));
        }
        let o = match run_with_fsize_limit(cmd, limit, Duration::from_secs(120)) {
            Ok(o) => o,
            Err(e) => return Report::inconclusive(format!("cannot run the create child: {}", e)),
        };
        if o.timed_out {
            return Report::inconclusive(format!("create under a {}-byte file-size limit timed out", limit));
        }
        cn[0] += 1;
        let written = std::fs::metadata(&out).map(|m| m.len()).unwrap_or(0);
        if control {
            cn[4] += 1;
            if !o.ok() {
                return Report { verdict: Verdict::Fail(format!("control run with limit {} >= archive size {} failed: {}", limit, len, o.describe())), ..rep };
            }
            match std::fs::read(&out) {
                Ok(b) if b == bytes => {}
                Ok(b) => {
                    // byte identity of two fault-free runs is C04's subject; here the archive must at least be complete
                    if agcref::read_archive(&b).is_err() {
                        return Report { verdict: Verdict::Fail(format!("control run with limit {} wrote an unreadable archive", limit)), ..rep };
                    }
                    rep = rep.label("control-bytes-differ(C04)");
                }
                Err(e) => return Report { verdict: Verdict::Fail(format!("control run wrote nothing: {}", e)), ..rep },
            }
            continue;
        }
        if limit >= len - 8 {
            in_len8 = true;
            cn[3] += 1;
        } else if limit >= footer_start {
            in_dir = true;
            cn[2] += 1;
        } else if parts.iter().any(|(po, ps)| limit > *po && limit < po + ps) {
            in_part = true;
            cn[1] += 1;
        }
        let reported_failure = if use_lib {
            let so = String::from_utf8_lossy(&o.stdout);
            if so.contains("finalize-panic") {
                return Report { verdict: Verdict::Fail(format!("library create panicked when the first failing write is at offset {}: {}", limit, so.trim())), ..rep };
            }
            if o.signal.is_some() || !(so.contains("finalize-ok") || so.contains("finalize-err")) {
                return Report { verdict: Verdict::Fail(format!("library create died when the first failing write is at offset {}: {}", limit, o.describe())), ..rep };
            }
            so.contains("finalize-err")
        } else {
            if o.signal.is_some() {
                return Report { verdict: Verdict::Fail(format!("ragc create was killed by a signal when the first failing write is at offset {}: {}", limit, o.describe())), ..rep };
            }
            o.code != Some(0)
        };
        if !reported_failure {
            return Report {
                verdict: Verdict::Fail(format!(
                    "{} reported success although the first failing write was at offset {} of {} ({} bytes on disk)",
                    if use_lib { "StreamingQueueCompressor::finalize" } else { "ragc create (exit 0)" },
                    limit,
                    len,
                    written
                )),
                ..rep
            };
        }
    }
    counters.set(cn);
    rep.nontrivial = in_part && in_dir && in_len8;
    rep.label_if(in_part, "offset-inside-part").label_if(in_dir, "offset-inside-directory").label_if(in_len8, "offset-inside-8-byte-length")
}


/// One fault injection into the create of an archive that is larger than the 4 MiB write buffer, so
/// that part data reaches the file *before* the final flush and a failing write surfaces inside
/// add_part / the worker threads instead of in close().
#[derive(Clone, Debug, Hash, Serialize, Deserialize)]
pub struct BigFault {
    pub seed: u64,
    pub contigs: u32,
    pub contig_len: u32,
    pub threads: u32,
    pub limit: u64,
}

const BIG_BUFFER: u64 = 4 * 1024 * 1024;

fn write_big_input(path: &std::path::Path, b: &BigFault) -> std::io::Result<()> {
    use std::io::Write;
    // random text over 15 IUPAC letters: 4 bits per base after tuple packing and incompressible,
    // no ACGT-only k-mers (so splitter search is instant); ~0.5 byte of archive per base
    const AL: &[u8; 15] = b"ACGTRYKMSWBDHVN";
    let mut r = SplitMix::new(b.seed ^ 0xB16_A2C4);
    let mut f = std::io::BufWriter::new(std::fs::File::create(path)?);
    for c in 0..b.contigs {
        writeln!(f, ">big#1#c{}", c)?;
        let mut line = Vec::with_capacity(b.contig_len as usize + 1);
        let mut bits = 0u64;
        let mut have = 0;
        for _ in 0..b.contig_len {
            if have < 4 {
                bits = r.next();
                have = 64;
            }
            let mut x = (bits & 15) as usize;
            bits >>= 4;
            have -= 4;
            if x == 15 {
                x = 0;
            }
            line.push(AL[x]);
        }
        line.push(b'\n');
        f.write_all(&line)?;
    }
    f.flush()
}

pub fn check_big(ctx: &Ctx, b: &BigFault) -> Report {
    let dir = ctx.scratch("c15big");
    let input = dir.file("big.fa");
    if let Err(e) = write_big_input(&input, b) {
        return Report::inconclusive(format!("harness: cannot write the big input: {}", e));
    }
    let out = dir.file("big.agc");
    let params = gen::Params { k: 21, segment_size: 60000, min_match: 20, threads: b.threads, pack: 50, fallback_permille: 0, queue_capacity: 2 << 30, single_file: true };
    let mut cmd = Command::new(&ctx.ragc);
    cmd.args(pipeline::create_args(&params, &out, &[input.clone()]));
    let o = match run_with_fsize_limit(cmd, b.limit, Duration::from_secs(900)) {
        Ok(o) => o,
        Err(e) => return Report::inconclusive(format!("cannot run ragc: {}", e)),
    };
    if o.timed_out {
        return Report::inconclusive(format!("create of the > 4 MiB archive under a {}-byte limit timed out", b.limit));
    }
    let rep = Report::pass(true).label("big-archive(>4MiB write buffer)").label(if b.limit < BIG_BUFFER { "fault-before-first-buffer-flush" } else { "fault-after-first-buffer-flush" });
    if o.signal.is_some() {
        return Report { verdict: Verdict::Fail(format!("ragc create was killed by a signal when the first failing write is at offset {}: {}", b.limit, o.describe())), ..rep };
    }
    if o.code == Some(0) {
        // success is only truthful if the whole archive fitted below the limit: it must parse completely
        let bytes = std::fs::read(&out).unwrap_or_default();
        return match agcref::read_archive(&bytes) {
            Ok(f) if f.samples.len() == 1 => {
                if (bytes.len() as u64) <= BIG_BUFFER {
                    return Report::inconclusive(format!("harness: the 'big' archive has only {} bytes (not above the write buffer)", bytes.len()));
                }
                let mut r = rep.label("control(limit>=size)");
                r.nontrivial = false;
                r
            }
            Ok(_) => Report { verdict: Verdict::Fail(format!("ragc create exited 0 under a {}-byte limit and the archive lists no sample", b.limit)), ..rep },
            Err(e) => Report {
                verdict: Verdict::Fail(format!("ragc create (exit 0) reported success although the first failing write was at offset {} ({} bytes on disk, not a complete archive: {})", b.limit, bytes.len(), e)),
                ..rep
            },
        };
    }
    rep
}

fn big_cases(ctx: &Ctx) -> Vec<BigFault> {
    let n = ctx.tier.pick(16usize, 96);
    let mut r = SplitMix::new(crate::util::mix(ctx.seed, 0xC15B16));
    let seed = r.next();
    let mut limits: Vec<u64> = vec![1, 4096, BIG_BUFFER - 1, BIG_BUFFER, BIG_BUFFER + 1, BIG_BUFFER + 4096, 1 << 40];
    while limits.len() < n {
        // the archive has about 4.6 MiB: below the buffer size, between buffer size and end, around the end
        let x = match limits.len() % 3 {
            0 => r.below(BIG_BUFFER),
            1 => BIG_BUFFER + r.below(500_000),
            _ => BIG_BUFFER + 400_000 + r.below(300_000),
        };
        limits.push(x);
    }
    limits.into_iter().map(|limit| BigFault { seed, contigs: 5, contig_len: 1_900_000, threads: 2, limit }).collect()
}

// ------------------------------------------------------------------ pipe output --
// The output may be something that is not a regular file: `ragc create -o <fifo>` works (the
// archive is written front to back). When the reading side goes away before everything is
// written, every later write fails with EPIPE: create must not report success.

#[derive(Clone, Debug, Hash, Serialize, Deserialize)]
pub struct PipeCase {
    pub collection: Collection,
    /// control: the reader consumes everything (create must succeed and the bytes must be a complete archive)
    pub read_all: bool,
}

pub fn check_pipe(ctx: &Ctx, case: &PipeCase) -> Report {
    use std::io::Read;
    use std::os::unix::ffi::OsStrExt;
    let c = &case.collection;
    let dir = ctx.scratch("c15pipe");
    let inputs = match fasta::write_inputs(c, &dir.path.join("in")) {
        Ok(i) => i,
        Err(e) => return Report::inconclusive(format!("harness: cannot write inputs: {}", e)),
    };
    let fifo = dir.file("out.fifo");
    let cpath = std::ffi::CString::new(fifo.as_os_str().as_bytes()).unwrap();
    if unsafe { libc::mkfifo(cpath.as_ptr(), 0o600) } != 0 {
        return Report::inconclusive(format!("harness: mkfifo failed: {}", std::io::Error::last_os_error()));
    }
    // the reader: open() returns exactly when ragc has opened the FIFO for writing
    let read_all = case.read_all;
    let fpath = fifo.clone();
    let reader = std::thread::spawn(move || -> Vec<u8> {
        let mut got = Vec::new();
        if let Ok(mut f) = std::fs::File::open(&fpath) {
            if read_all {
                let _ = f.read_to_end(&mut got);
            }
            // else: dropped at once - the reading side is gone before ragc writes anything
        }
        got
    });
    let mut cmd = Command::new(&ctx.ragc);
    cmd.args(pipeline::create_args(&c.params, &fifo, &inputs));
    let o = pipeline::run_cmd(cmd, Duration::from_secs(180));
    // release the reader if ragc never opened the FIFO
    unsafe {
        let fd = libc::open(cpath.as_ptr(), libc::O_WRONLY | libc::O_NONBLOCK);
        if fd >= 0 {
            libc::close(fd);
        }
    }
    let got = reader.join().unwrap_or_default();
    let o = match o {
        Ok(o) => o,
        Err(e) => return Report::inconclusive(format!("cannot run ragc: {}", e)),
    };
    if o.timed_out {
        return Report::inconclusive("ragc create -o <fifo> timed out".to_string());
    }
    let rep = Report::pass(true).label("output-is-a-fifo").label(if read_all { "fifo:reader-consumes-everything(control)" } else { "fifo:reader-gone-before-the-first-write" });
    if read_all {
        if !o.ok() {
            // a create that fails on its own (e.g. rejected parameters) says nothing here
            return Report { nontrivial: false, ..rep.label("create-failed") };
        }
        return match agcref::read_archive(&got) {
            Ok(f) if f.samples.len() == c.samples.len() => rep,
            Ok(f) => Report { verdict: Verdict::Fail(format!("create -o <fifo> exited 0 but the {} bytes the reader received list {} of {} samples", got.len(), f.samples.len(), c.samples.len())), ..rep },
            Err(e) => Report { verdict: Verdict::Fail(format!("create -o <fifo> exited 0 but the {} bytes the reader received are not a complete archive: {}", got.len(), e)), ..rep },
        };
    }
    if o.code == Some(0) {
        return Report { verdict: Verdict::Fail("ragc create (exit 0) reported success although the reading side of its output pipe was closed before anything was written (every write fails with EPIPE)".to_string()), ..rep };
    }
    rep
}

pub fn run(ctx: &Ctx, stats: &mut Stats) {
    use proptest::prelude::*;
    let c2 = ctx.clone();
    let counters = std::cell::Cell::new([0u64; 5]);
    let cfg = GenCfg { max_contig: 1800, max_samples: 3, many_samples_pct: 0, single_file: None, vary_presentation: false, swarm_pct: 0 };
    let n = ctx.tier.pick(16, 160);
    {
        let check = |c: &FaultCase| check_in(&c2, c, &counters);
        run_prop(ctx, stats, "archives", n, gen::collection_strategy(cfg).prop_map(|collection| FaultCase { collection, only: None, exhaustive: false }), &check);
        if ctx.tier == Tier::Thorough {
            // every offset of a few small archives
            let tiny = GenCfg { max_contig: 1200, max_samples: 2, many_samples_pct: 0, single_file: None, vary_presentation: false, swarm_pct: 0 };
            run_prop(ctx, stats, "all-offsets", 16, gen::collection_strategy(tiny).prop_map(|collection| FaultCase { collection, only: None, exhaustive: true }), &check);
        }
    }
    {
        use proptest::prelude::*;
        let c4 = ctx.clone();
        let cfgp = GenCfg { max_contig: 1800, max_samples: 3, many_samples_pct: 0, single_file: None, vary_presentation: false, swarm_pct: 0 };
        let np = ctx.tier.pick(32, 400);
        run_prop(ctx, stats, "pipe-output", np, (gen::collection_strategy(cfgp), prop::bool::weighted(0.25)).prop_map(|(collection, read_all)| PipeCase { collection, read_all }), &move |p: &PipeCase| check_pipe(&c4, p));
    }
    {
        let c3 = ctx.clone();
        run_exhaustive(ctx, stats, "big-archive", big_cases(ctx).into_iter(), &move |b: &BigFault| check_big(&c3, b));
        stats.stages.entry("big-archive".into()).or_default().exhaustive = false; // a sample of offsets, not all
    }
    let c = counters.get();
    stats.add_extra_count("faulted_creates", c[0]);
    stats.add_extra_count("faults_inside_a_part", c[1]);
    stats.add_extra_count("faults_inside_the_directory", c[2]);
    stats.add_extra_count("faults_inside_the_8_byte_length", c[3]);
    stats.add_extra_count("control_runs", c[4]);
}

pub fn replay(ctx: &Ctx, stage: &str, case: &Value) -> Report {
    if stage == "pipe-output" {
        return match from_case::<PipeCase>(case) {
            Ok(b) => check_pipe(ctx, &b),
            Err(e) => Report::fail(e),
        };
    }
    if stage == "big-archive" {
        return match from_case::<BigFault>(case) {
            Ok(b) => check_big(ctx, &b),
            Err(e) => Report::fail(e),
        };
    }
    let counters = std::cell::Cell::new([0u64; 5]);
    match from_case::<FaultCase>(case) {
        Ok(c) => check_in(ctx, &c, &counters),
        Err(e) => Report::fail(e),
    }
}

pub const INFO: PropInfo = PropInfo {
    id: "C15",
    level: "fault_enumeration",
    rule: "cases = generated collections (16 quick / 96 thorough) x injection offsets N: the create runs in a child with RLIMIT_FSIZE = N and SIGXFSZ ignored, so the first write that would pass N fails with EFBIG after a partial write (the shape of a full disk). Offsets (quick, ~30 per archive): 0, 1, every N in the last 12 bytes (the 8-byte length and the directory's tail), the footer start -1/0/+1 and the directory's middle, start and interior of 5 parts (from the independent parser's directory), 4 random N; thorough (16 x 96 archives): 0..2, the last 64 bytes, boundary -1/0/+1 and interior of up to 40 parts, footer start -1..+2, 40 random N, and additionally ALL N in 0..size-1 for 16 small archives. Two thirds of the runs use the real `ragc create` (exit status), one third the library path re-executed in a child (Result of finalize). Oracle: for N < final size the run reports failure (exit != 0 / Err) and is not killed by a signal; control runs with N = size and size+4096 exit 0 with a complete archive (shows the injection is not vacuous). Non-trivial case = offsets fell strictly inside a part, inside the directory and inside the 8-byte length; distinct = distinct collection. faulted_creates etc. give the number of fault injections. Stage pipe-output (32 quick / 400 thorough): `ragc create -o <fifo>`; the reader either leaves as soon as ragc has opened the FIFO (every write then fails with EPIPE: exit must be non-zero) or, as control, consumes everything (exit 0 and the received bytes are a complete archive listing every sample). Stage big-archive: one generated input (5 contigs x 1.9 Mbases of random IUPAC text, seed from VERIF_SEED) whose archive (~4.6 MiB) exceeds the 4 MiB write buffer, so part data is written before the final flush and a failing write surfaces in add_part / the worker threads rather than in close(); 16 (quick) / 96 (thorough) limits: 1, 4096, 4 MiB -1/0/+1/+4096, random below 4 MiB, between 4 MiB and the end, around the end, and a control (2^40); oracle: exit != 0 and no signal, or exit 0 with a file that the independent reader parses completely (only possible when the limit was never hit).",
    assumptions: &["the fault model is 'first failing write at byte N, all later writes fail too' (file-size limit); transient faults are not modelled", "except in stage big-archive the archives are smaller than the 4 MiB write buffer, so the data reaches the file in the final flush"],
    needs_cli: true,
    needs_checked: false,
    max_shards: 16,
    shrink_iters: 0,
    watchdog_s: (2400, 21600),
    run,
    replay,
};
