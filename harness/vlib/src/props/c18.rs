//! C18 — behaviour independent of integer-overflow checking (build profile).
//!
//! Every case is executed by two builds of the same code: the release profile and
//! `checked` (= release + overflow-checks; debug assertions stay off, so integer
//! overflow is the only difference).

use crate::engine::*;
use crate::fasta;
use crate::gen::{self, Collection, GenCfg};
use crate::pipeline::{self, run_cmd};
use crate::props::c09::LzCase;
use crate::util::{sha256_hex, stable_hash};
use proptest::prelude::*;
use ragc_core::LZDiff;
use serde::{Deserialize, Serialize};
use serde_json::Value;
use std::path::Path;
use std::process::Command;
use std::time::Duration;

// ------------------------------------------------------------------ LZ cost --

#[derive(Clone, Debug, Hash, Serialize, Deserialize)]
pub struct LzBatch {
    pub cases: Vec<LzCase>,
}

fn lz_line(c: &LzCase) -> String {
    let r = guarded(|| {
        let mut lz = LZDiff::new(c.min_match as u32);
        lz.prepare(&c.reference);
        let e1 = lz.estimate(&c.target, u32::MAX);
        let e2 = lz.estimate(&c.target, 8);
        let v1 = lz.get_coding_cost_vector(&c.target, true);
        let v2 = lz.get_coding_cost_vector(&c.target, false);
        let enc = lz.encode(&c.target);
        format!("est={} est8={} cvp={:016x}/{} cvs={:016x}/{} enc={:016x}", e1, e2, stable_hash(&v1), v1.len(), stable_hash(&v2), v2.len(), stable_hash(&enc))
    });
    match r {
        Ok(s) => s,
        Err(p) => format!("panic: {}", p),
    }
}

/// child: `estimate <cases.json>` prints one line per case
pub fn estimate_child(args: &[String]) -> i32 {
    install_panic_hook();
    let Some(b) = std::fs::read_to_string(&args[0]).ok().and_then(|t| serde_json::from_str::<LzBatch>(&t).ok()) else {
        eprintln!("bad batch file");
        return 2;
    };
    for c in &b.cases {
        println!("{}", lz_line(c));
    }
    0
}

fn overflow_panic(s: &str) -> bool {
    s.contains("attempt to") && s.contains("overflow")
}

pub fn check_lz(ctx: &Ctx, batch: &LzBatch) -> Report {
    let dir = ctx.scratch("c18lz");
    let f = dir.file("batch.json");
    if std::fs::write(&f, serde_json::to_string(batch).unwrap()).is_err() {
        return Report::inconclusive("harness: cannot write batch".to_string());
    }
    let mut cmd = Command::new(&ctx.vcheck_checked);
    cmd.args(["child", "estimate"]).arg(&f);
    let o = match run_cmd(cmd, Duration::from_secs(600)) {
        Ok(o) => o,
        Err(e) => return Report::inconclusive(format!("cannot run the checked build: {}", e)),
    };
    if !o.ok() {
        return Report::inconclusive(format!("checked estimate child: {}", o.describe()));
    }
    let checked: Vec<String> = String::from_utf8_lossy(&o.stdout).lines().map(|s| s.to_string()).collect();
    if checked.len() != batch.cases.len() {
        return Report::inconclusive("checked estimate child printed a different number of lines".to_string());
    }
    let mut back_ext = false;
    for (i, c) in batch.cases.iter().enumerate() {
        let rel = lz_line(c);
        if overflow_panic(&checked[i]) || overflow_panic(&rel) {
            return Report::fail(format!("case {} (|ref|={}, |target|={}, min match {}): arithmetic overflow: checked build: {} / release build: {}", i, c.reference.len(), c.target.len(), c.min_match, checked[i], rel));
        }
        if rel != checked[i] {
            return Report::fail(format!("case {} (|ref|={}, |target|={}, min match {}): release build gives [{}], overflow-checked build gives [{}]", i, c.reference.len(), c.target.len(), c.min_match, rel, checked[i]));
        }
        if c.target.len() > 40 && c.reference.len() > 40 {
            back_ext = true;
        }
    }
    Report::pass(back_ext).label("lz-batch")
}

// ----------------------------------------------------------------- archives --

#[derive(Clone, Debug, Hash, Serialize, Deserialize)]
pub struct ArcCase {
    pub collection: Collection,
}

fn child_extract(exe: &Path, archive: &Path) -> Result<String, String> {
    child_read(exe, archive, "extract")
}

fn child_read(exe: &Path, archive: &Path, what: &str) -> Result<String, String> {
    let mut cmd = Command::new(exe);
    cmd.args(["child", what]).arg(archive);
    let o = run_cmd(cmd, Duration::from_secs(300)).map_err(|e| format!("cannot run {}: {}", exe.display(), e))?;
    if o.timed_out {
        return Err("extract child timed out".into());
    }
    if !o.ok() {
        return Ok(format!("died: {}", o.describe()));
    }
    Ok(String::from_utf8_lossy(&o.stdout).trim().to_string())
}

pub fn check_archive(ctx: &Ctx, case: &ArcCase) -> Report {
    let c = &case.collection;
    let dir = ctx.scratch("c18");
    let inputs = match fasta::write_inputs(c, &dir.path.join("in")) {
        Ok(i) => i,
        Err(e) => return Report::inconclusive(format!("harness: cannot write inputs: {}", e)),
    };
    let token_rounds = c.params.single_file && c.n_contigs() as u32 >= c.params.pack;
    let mut rep = Report::pass(false)
        .label(if c.params.single_file { "mode:single-file" } else { "mode:multi-file" })
        .label_if(token_rounds, "single-file>=pack-cardinality-contigs")
        .label_if(c.params.queue_capacity < c.largest_contig() as u64, "queue-smaller-than-a-contig");
    let exe = std::env::current_exe().expect("exe");
    let mut outs = Vec::new();
    for (which, bin) in [("release", &ctx.ragc), ("checked", &ctx.ragc_checked)] {
        let a = dir.file(&format!("{}.agc", which));
        let o = match pipeline::cli_create(bin, &c.params, &a, &inputs) {
            Ok(o) => o,
            Err(e) => return Report::inconclusive(format!("cannot run ragc ({}): {}", which, e)),
        };
        if o.timed_out {
            return Report::inconclusive(format!("ragc create ({}) timed out", which));
        }
        let err = String::from_utf8_lossy(&o.stderr).to_string();
        if overflow_panic(&err) {
            let line = err.lines().find(|l| overflow_panic(l)).unwrap_or("").to_string();
            let at = err.lines().find(|l| l.contains("panicked at")).unwrap_or("").to_string();
            return Report { verdict: Verdict::Fail(format!("ragc create ({} build) aborts with an arithmetic-overflow panic: {} {}", which, at.trim(), line.trim())), ..rep };
        }
        outs.push((which, a, o));
    }
    let (rel, chk) = (&outs[0], &outs[1]);
    if rel.2.ok() != chk.2.ok() {
        return Report { verdict: Verdict::Fail(format!("create: release build {}, overflow-checked build {}", rel.2.describe(), chk.2.describe())), ..rep };
    }
    if !rel.2.ok() {
        return rep.label("create-failed-in-both");
    }
    // extraction: both archives, read by both builds of the reader
    let mut sums = Vec::new();
    for (which_a, a, _) in &outs {
        for (which_r, r) in [("release", exe.as_path()), ("checked", ctx.vcheck_checked.as_path())] {
            match child_extract(r, a) {
                Ok(s) => {
                    if overflow_panic(&s) {
                        return Report { verdict: Verdict::Fail(format!("extraction of the {} archive with the {} reader: {}", which_a, which_r, s)), ..rep };
                    }
                    sums.push((format!("{} archive / {} reader", which_a, which_r), s));
                }
                Err(e) => return Report::inconclusive(e),
            }
        }
    }
    if let Some(bad) = sums.iter().find(|s| s.1 != sums[0].1) {
        return Report { verdict: Verdict::Fail(format!("extraction differs between build profiles: {} -> {}, {} -> {}", sums[0].0, sums[0].1, bad.0, bad.1)), ..rep };
    }
    if !sums[0].1.starts_with("ok ") {
        return Report { verdict: Verdict::Fail(format!("created archive cannot be extracted: {}", sums[0].1)), ..rep };
    }
    // every other read-side query (lengths, ranges around the ends, descriptor tables, statistics,
    // reference segments) on the release archive, by both builds of the reader
    let mut q = Vec::new();
    for (which_r, r) in [("release", exe.as_path()), ("checked", ctx.vcheck_checked.as_path())] {
        match child_read(r, &rel.1, "queries") {
            Ok(s) => {
                if overflow_panic(&s) {
                    return Report { verdict: Verdict::Fail(format!("length / range / table queries with the {} reader: {}", which_r, s)), ..rep };
                }
                q.push(s);
            }
            Err(e) => return Report::inconclusive(e),
        }
    }
    if q[0] != q[1] {
        return Report { verdict: Verdict::Fail(format!("length / range / table queries differ between build profiles: release -> {}, checked -> {}", q[0], q[1])), ..rep };
    }
    rep = rep.label_if(q[0].starts_with("ok "), "queries-compared");
    // byte identity where creation is deterministic anyway (multi-file, token-free single-file)
    if !token_rounds {
        let (b1, b2) = (std::fs::read(&rel.1).unwrap_or_default(), std::fs::read(&chk.1).unwrap_or_default());
        if b1 != b2 {
            // blame the profile only if the release build agrees with itself
            let a3 = dir.file("release2.agc");
            match pipeline::cli_create(&ctx.ragc, &c.params, &a3, &inputs) {
                Ok(o) if o.ok() => {
                    if std::fs::read(&a3).unwrap_or_default() == b1 {
                        return Report { verdict: Verdict::Fail(format!("archives differ between the release build (sha256 {}) and the overflow-checked build (sha256 {}) while two release runs agree", &sha256_hex(&b1)[..12], &sha256_hex(&b2)[..12])), ..rep };
                    }
                    rep = rep.label("not-byte-stable-within-one-build(C04)");
                }
                _ => return Report::inconclusive("second release create failed".to_string()),
            }
        } else {
            rep = rep.label("byte-identical-across-profiles");
        }
    }
    rep.nontrivial = token_rounds || c.samples.len() >= 2;
    rep
}

fn arc_strategy() -> impl Strategy<Value = ArcCase> {
    // biased to one PanSN file with at least pack-cardinality contigs (sync-token rounds)
    let many_contigs = (gen::collection_strategy(GenCfg { max_contig: 1500, max_samples: 4, many_samples_pct: 30, single_file: Some(true), vary_presentation: false, swarm_pct: 0 }), 1u32..9).prop_map(|(mut c, pack)| {
        c.params.pack = pack;
        ArcCase { collection: c }
    });
    let general = gen::collection_strategy(GenCfg { max_contig: 4000, max_samples: 4, many_samples_pct: 3, single_file: None, vary_presentation: false, swarm_pct: 0 }).prop_map(|collection| ArcCase { collection });
    // a fifth of the cases with a queue smaller than the largest contig (admitted once the queue is empty)
    (prop_oneof![3 => many_contigs, 2 => general], prop_oneof![4 => Just(0u32), 1 => 1u32..256]).prop_map(|(mut c, frac)| {
        if frac > 0 {
            let largest = c.collection.largest_contig() as u64;
            c.collection.params.queue_capacity = (largest * frac as u64 / 256).max(1);
        }
        c
    })
}

pub fn run(ctx: &Ctx, stats: &mut Stats) {
    if !ctx.vcheck_checked.exists() || !ctx.ragc_checked.exists() {
        stats.inconclusive.push("overflow-checked builds are missing".into());
        return;
    }
    let c2 = ctx.clone();
    let n = ctx.tier.pick(160, 4_000);
    run_prop(ctx, stats, "archives", n, arc_strategy(), &move |c: &ArcCase| check_archive(&c2, c));
    // LZ cost estimation in batches of 400 pairs
    let c3 = ctx.clone();
    let nb = ctx.tier.pick(256, 8_000);
    let max_len = ctx.tier.pick(2_000, 20_000);
    let batch = prop::collection::vec(crate::props::c09::strat(max_len), 400..401).prop_map(|cases| LzBatch { cases: cases.into_iter().filter(|c| !c.target.is_empty()).collect() });
    run_prop(ctx, stats, "lz-cost", nb, batch, &move |b: &LzBatch| check_lz(&c3, b));
    stats.add_extra_count("lz_pairs_compared", stats.stages.get("lz-cost").map(|s| s.evaluations * 400).unwrap_or(0));
}

pub fn replay(ctx: &Ctx, stage: &str, case: &Value) -> Report {
    if stage == "lz-cost" {
        return match from_case::<LzBatch>(case) {
            Ok(c) => check_lz(ctx, &c),
            Err(e) => Report::fail(e),
        };
    }
    match from_case::<ArcCase>(case) {
        Ok(c) => check_archive(ctx, &c),
        Err(e) => Report::fail(e),
    }
}

pub const INFO: PropInfo = PropInfo {
    id: "C18",
    level: "exploration",
    rule: "differential testing across two builds of the same tree: release and release+overflow-checks (CLI and harness both built twice). (1) archives: generated collections, 3/5 of them one PanSN file with at least -l contigs (-l 1..8, so many sync-token rounds; a third with > 50 samples), the rest the general C01 space; created by both ragc builds, both archives extracted by both reader builds; a fifth of the cases with --queue-capacity below the largest contig; oracle: same exit class, all four extractions equal and ok, the other read-side queries (get_contig_length, get_contig_range around both ends, descriptor tables, group statistics, reference segments) equal between the two reader builds, byte-identical archives wherever creation is deterministic anyway (multi-file, single-file below -l contigs; a difference is blamed on the profile only when two release runs agree), and no 'attempt to ... with overflow' panic anywhere. (2) LZ cost: batches of 400 (reference, target, min match) pairs from the C09 generators through estimate (bound max and 8), get_coding_cost_vector (prefix and suffix) and encode in both builds; oracle: identical results, no overflow panic. (3) the truncated-archive space runs in both builds under C14. Non-trivial archive case = one PanSN file with >= -l contigs, or >= 2 samples; distinct = distinct case.",
    assumptions: &["debug assertions are off in both builds, so integer overflow checking is the only difference", "C14 carries the prefix space for both profiles"],
    needs_cli: true,
    needs_checked: true,
    max_shards: 16,
    shrink_iters: 30,
    watchdog_s: (2400, 14400),
    run,
    replay,
};
