//! placeholder (filled in below)
pub fn estimate_child(_args: &[String]) -> i32 {
    2
}
