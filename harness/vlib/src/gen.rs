//! Collection generator (DESIGN §3.1): related samples built by construction
//! from an ancestor genome, so that LZ groups, missing splitters (cost-based
//! splits with re-orientation), reverse-complemented segments, IUPAC codes,
//! N runs, >50 group members and >50 samples actually occur.
//!
//! The *case* that is checked, hashed, shrunk and written to replay files is
//! the expanded `Collection` (names + sequences + parameters + presentation);
//! proptest generates and shrinks the `Recipe` it is derived from.

use crate::naive;
use crate::util::{letters_to_codes, revcomp_letters, scale, SplitMix};
use proptest::prelude::*;
use serde::{Deserialize, Serialize};

pub const IUPAC: &[u8; 16] = b"ACGTNRYSWKMBDHVU";

#[derive(Clone, Debug, Hash, PartialEq, Eq, Serialize, Deserialize)]
pub struct Params {
    pub k: u32,
    pub segment_size: u32,
    pub min_match: u32,
    pub threads: u32,
    pub pack: u32,
    /// fallback fraction in 1/1000
    pub fallback_permille: u32,
    /// queue capacity in bytes
    pub queue_capacity: u64,
    /// one PanSN file holding all samples (true) or one file per sample (false)
    pub single_file: bool,
}

#[derive(Clone, Debug, Hash, PartialEq, Eq, Serialize, Deserialize)]
pub struct Presentation {
    /// 0 = each sequence on one line
    pub width: u32,
    pub crlf: bool,
    /// 0 upper, 1 lower, 2 mixed
    pub case_mode: u8,
    /// 0 plain, 1 gzip, 2 multi-member gzip
    pub gz: u8,
    /// member boundaries for gz == 2, as fractions of the text length
    pub cuts: Vec<u16>,
    pub final_newline: bool,
    /// 0 ".fa", 1 ".fasta", 2 ".fna"
    pub ext: u8,
    pub case_seed: u64,
}

impl Presentation {
    pub fn plain() -> Presentation {
        Presentation { width: 80, crlf: false, case_mode: 0, gz: 0, cuts: vec![], final_newline: true, ext: 0, case_seed: 0 }
    }
}

#[derive(Clone, Debug, Hash, PartialEq, Eq, Serialize, Deserialize)]
pub struct ContigRec {
    /// the whole header line without '>'
    pub header: String,
    /// upper-case letters
    pub seq: String,
}

#[derive(Clone, Debug, Hash, PartialEq, Eq, Serialize, Deserialize)]
pub struct Sample {
    pub name: String,
    pub contigs: Vec<ContigRec>,
}

#[derive(Clone, Debug, Hash, PartialEq, Eq, Serialize, Deserialize)]
pub struct Collection {
    pub params: Params,
    pub pres: Presentation,
    /// headers are PanSN (`sample#hap#contig …`); always true in single-file mode
    pub pansn: bool,
    pub samples: Vec<Sample>,
    /// construction notes (which structural features the generator aimed at)
    pub aims: Vec<String>,
    /// per-sample-file mode with PanSN headers only: the contigs of sample `.0` from index `.1` on
    /// are written to an extra input file that comes after all other files, so the sample is
    /// revisited after other samples were added (sample order = first seen, contig order = input order)
    #[serde(default)]
    pub revisit: Option<(u16, u16)>,
}

impl Collection {
    pub fn total_bases(&self) -> usize {
        self.samples.iter().map(|s| s.contigs.iter().map(|c| c.seq.len()).sum::<usize>()).sum()
    }
    pub fn largest_contig(&self) -> usize {
        self.samples.iter().flat_map(|s| s.contigs.iter().map(|c| c.seq.len())).max().unwrap_or(0)
    }
    pub fn n_contigs(&self) -> usize {
        self.samples.iter().map(|s| s.contigs.len()).sum()
    }
}

// ------------------------------------------------------------------ recipe --

#[derive(Clone, Debug)]
pub struct AncContig {
    pub len: usize,
    pub seed: u64,
    /// (period, total length) of a low-complexity stretch inserted in the middle
    pub low: Option<(u8, u16)>,
    /// non-ACGT runs of the ancestor itself, inherited by every sample (scaffold gaps shared by
    /// reference and targets): (position, length, kind) with kind 0..=4 = N, 5..=9 an IUPAC code, 10..=13 a homopolymer tract
    pub gaps: Vec<(u16, u16, u8)>,
}

#[derive(Clone, Debug)]
pub enum Edit {
    Snp { contig: u8, pos: u16 },
    Del { contig: u8, pos: u16, len: u8 },
    Ins { contig: u8, pos: u16, len: u8, seed: u64 },
    NRun { contig: u8, pos: u16, len: u16 },
    Iupac { contig: u8, pos: u16, code: u8, run: u8 },
    /// a variant (0 SNP, 1 deletion, 2 insertion) `dist` bases before (negative) or after the
    /// `which`-th N run of the contig: literals right next to a gap that the reference shares
    NearNRun { contig: u8, which: u8, dist: i8, kind: u8 },
    /// mutate one base inside the `which`-th occurrence of a reference splitter
    KnockSplitter { contig: u8, which: u16, offset: u8, iupac: Option<(i8, u8)> },
}

#[derive(Clone, Debug)]
pub enum ContigOp {
    Drop(u8),
    RevComp(u8),
    Duplicate(u8),
    Novel { len: u16, seed: u64 },
    SwapOrder(u8, u8),
}

#[derive(Clone, Debug)]
pub struct SampleRecipe {
    /// per-base divergence from the ancestor in parts per million
    pub div_ppm: u32,
    pub seed: u64,
    pub edits: Vec<Edit>,
    pub contig_ops: Vec<ContigOp>,
    /// copy of an earlier sample (identical sequences, new names)
    pub clone_of: Option<u8>,
}

#[derive(Clone, Debug)]
pub struct NameStyle {
    pub seed: u64,
    /// number of description fields after the id (0..5)
    pub fields: u8,
    /// 0 none, 1 spaces only, 2 tabs / double spaces / long runs
    pub exotic: u8,
}

#[derive(Clone, Debug)]
pub struct Recipe {
    pub params: Params,
    pub pres: Presentation,
    pub pansn: bool,
    pub anc: Vec<AncContig>,
    pub samples: Vec<SampleRecipe>,
    pub names: NameStyle,
    /// add this many tiny extra samples (for the >50 sample branch)
    pub tiny_samples: u16,
    /// (sample, number of contigs, contig length, seed): extra short unrelated contigs
    pub swarm: Option<(u8, u16, u8, u64)>,
    pub revisit: Option<(u8, u8)>,
}

// --------------------------------------------------------------- expansion --

fn random_bases(r: &mut SplitMix, n: usize) -> Vec<u8> {
    (0..n).map(|_| b"ACGT"[r.below(4) as usize]).collect()
}

fn expand_anc(a: &AncContig) -> Vec<u8> {
    let mut r = SplitMix::new(a.seed);
    let mut s = random_bases(&mut r, a.len);
    if let Some((period, total)) = a.low {
        if a.len > 4 {
            let unit = random_bases(&mut r, period.max(1) as usize);
            let at = a.len / 2;
            let stretch: Vec<u8> = unit.iter().cycle().take(total as usize).copied().collect();
            let end = (at + stretch.len()).min(s.len());
            s.splice(at..end, stretch);
        }
    }
    for (pos, len, kind) in &a.gaps {
        if s.len() < 3 {
            break;
        }
        let p = scale(*pos, s.len());
        let l = (*len as usize).min(s.len() - p).max(1);
        // kinds: 0..=4 N, 5..=9 an ambiguity code, 10..=13 a homopolymer tract (poly-A packs to 0x00
        // bytes, poly-T to 0xFF bytes in stored-raw tuple-packed segments)
        let c = match *kind {
            0..=4 => b'N',
            5..=9 => IUPAC[5 + (*kind as usize * 3) % 11],
            _ => b"ACGT"[*kind as usize % 4],
        };
        for x in &mut s[p..p + l] {
            *x = c;
        }
    }
    s
}

fn diverge(src: &[u8], ppm: u32, r: &mut SplitMix) -> Vec<u8> {
    if ppm == 0 {
        return src.to_vec();
    }
    let mut out = Vec::with_capacity(src.len() + 16);
    for &c in src {
        if r.chance(ppm as u64) {
            match r.below(10) {
                0 | 1 => {} // deletion
                2 | 3 => {
                    out.push(b"ACGT"[r.below(4) as usize]);
                    out.push(c);
                }
                _ => {
                    let alt = b"ACGT"[r.below(4) as usize];
                    out.push(if alt == c { b"CGTA"[r.below(4) as usize] } else { alt });
                }
            }
        } else {
            out.push(c);
        }
    }
    out
}

fn splitter_occurrences(seq: &[u8], k: usize, splitters: &ahash::AHashSet<u64>) -> Vec<usize> {
    // end positions (inclusive) of windows whose canonical k-mer is a reference splitter
    let codes = letters_to_codes(std::str::from_utf8(seq).unwrap_or(""));
    naive::windows(&codes, k).into_iter().filter(|(_, w)| splitters.contains(&naive::canonical(w))).map(|(e, _)| e).collect()
}

fn apply_edit(contigs: &mut Vec<(String, Vec<u8>)>, e: &Edit, k: usize, splitters: Option<&ahash::AHashSet<u64>>, aims: &mut Vec<String>) {
    if contigs.is_empty() {
        return;
    }
    let n_contigs = contigs.len();
    let pick = |c: u8, n: usize| c as usize % n;
    match e {
        Edit::Snp { contig, pos } => {
            let s = &mut contigs[pick(*contig, n_contigs)].1;
            if !s.is_empty() {
                let p = scale(*pos, s.len());
                s[p] = match s[p] {
                    b'A' => b'C',
                    b'C' => b'G',
                    b'G' => b'T',
                    _ => b'A',
                };
            }
        }
        Edit::Del { contig, pos, len } => {
            let s = &mut contigs[pick(*contig, n_contigs)].1;
            if s.len() > 1 {
                let p = scale(*pos, s.len());
                let l = (*len as usize).min(s.len() - p).min(s.len() - 1);
                s.drain(p..p + l);
            }
        }
        Edit::Ins { contig, pos, len, seed } => {
            let s = &mut contigs[pick(*contig, n_contigs)].1;
            let p = scale(*pos, s.len() + 1);
            let mut r = SplitMix::new(*seed);
            let ins = random_bases(&mut r, *len as usize);
            s.splice(p..p, ins);
        }
        Edit::NRun { contig, pos, len } => {
            let s = &mut contigs[pick(*contig, n_contigs)].1;
            if !s.is_empty() {
                let p = scale(*pos, s.len());
                let l = (*len as usize).min(s.len() - p).max(1);
                for x in &mut s[p..p + l] {
                    *x = b'N';
                }
            }
        }
        Edit::Iupac { contig, pos, code, run } => {
            let s = &mut contigs[pick(*contig, n_contigs)].1;
            if !s.is_empty() {
                let p = scale(*pos, s.len());
                let l = (*run as usize).min(s.len() - p).max(1);
                for x in &mut s[p..p + l] {
                    *x = IUPAC[5 + (*code as usize % 11)];
                }
            }
        }
        Edit::NearNRun { contig, which, dist, kind } => {
            let s = &mut contigs[pick(*contig, n_contigs)].1;
            // N runs of this contig: (start, end)
            let mut runs: Vec<(usize, usize)> = Vec::new();
            let mut i = 0;
            while i < s.len() {
                if s[i] == b'N' {
                    let st = i;
                    while i < s.len() && s[i] == b'N' {
                        i += 1;
                    }
                    runs.push((st, i));
                } else {
                    i += 1;
                }
            }
            if runs.is_empty() {
                return;
            }
            let (st, en) = runs[*which as usize % runs.len()];
            let p = if *dist < 0 { st as i64 + *dist as i64 } else { en as i64 + *dist as i64 };
            if p < 0 || p as usize >= s.len() || s[p as usize] == b'N' {
                return;
            }
            let p = p as usize;
            match kind % 3 {
                0 => {
                    s[p] = match s[p] {
                        b'A' => b'C',
                        b'C' => b'G',
                        b'G' => b'T',
                        _ => b'A',
                    }
                }
                1 => {
                    if s.len() > 1 {
                        s.remove(p);
                    }
                }
                _ => s.insert(p, b"ACGT"[(*which as usize + *kind as usize) % 4]),
            }
            aims.push("variant-next-to-n-run".into());
        }
        Edit::KnockSplitter { contig, which, offset, iupac } => {
            let Some(spl) = splitters else { return };
            let ci = pick(*contig, contigs.len());
            let occ = splitter_occurrences(&contigs[ci].1, k, spl);
            // only interior occurrences make a segment that spans a missing splitter
            if occ.len() < 3 {
                return;
            }
            let o = 1 + scale(*which, occ.len() - 2);
            let end = occ[o];
            let s = &mut contigs[ci].1;
            let p = end + 1 - k + (*offset as usize % k);
            s[p] = match s[p] {
                b'A' => b'G',
                b'C' => b'T',
                b'G' => b'A',
                _ => b'C',
            };
            aims.push("splitter-knock-out".into());
            if let Some((delta, code)) = iupac {
                // an ambiguity code inside the segment that now spans the missing splitter
                let q = (end as i64 + 1 + *delta as i64 * 3).clamp(0, s.len() as i64 - 1) as usize;
                if q + k < p || q > end {
                    s[q] = IUPAC[5 + (*code as usize % 11)];
                    aims.push("iupac-near-knock-out".into());
                }
            }
        }
    }
}

fn make_header(style: &NameStyle, sample_idx: usize, contig_idx: usize, id: &str, pansn: bool) -> String {
    let mut r = SplitMix::new(style.seed ^ ((sample_idx as u64) << 32) ^ contig_idx as u64);
    let mut h = id.to_string();
    // fields shared across contigs of a sample (so the name delta coder sees equal / similar fields)
    let mut shared = SplitMix::new(style.seed ^ 0xABCD ^ ((sample_idx as u64) << 20));
    for f in 0..style.fields {
        let sep = if style.exotic >= 2 && r.below(7) == 0 { "  " } else { " " };
        h.push_str(sep);
        let kind = r.below(6);
        let field: String = match kind {
            0 => format!("len={}", 1000 + contig_idx * 37 + f as usize),
            1 => format!("f{}", shared.below(5)),
            2 => "same".to_string(),
            3 => {
                if style.exotic >= 2 {
                    let n = 95 + r.below(12) as usize;
                    "x".repeat(n) + if contig_idx % 2 == 0 { "a" } else { "b" }
                } else {
                    format!("v{}", contig_idx)
                }
            }
            4 => {
                if style.exotic >= 2 {
                    format!("t\tab{}", r.below(3))
                } else {
                    "desc".to_string()
                }
            }
            _ => {
                // printable ASCII without blanks; '#' only where it cannot be mistaken for PanSN
                let n = 1 + r.below(10) as usize;
                (0..n)
                    .map(|_| {
                        let c = (33 + r.below(94)) as u8 as char;
                        if c == '#' && !pansn {
                            '%'
                        } else {
                            c
                        }
                    })
                    .collect()
            }
        };
        h.push_str(&field);
    }
    h
}

pub fn expand(rec: &Recipe) -> Collection {
    let k = rec.params.k as usize;
    let mut aims: Vec<String> = Vec::new();
    let anc: Vec<Vec<u8>> = rec.anc.iter().map(expand_anc).collect();
    let mut raw_samples: Vec<Vec<(String, Vec<u8>)>> = Vec::new();
    let mut splitters: Option<ahash::AHashSet<u64>> = None;
    for (si, sr) in rec.samples.iter().enumerate() {
        let mut contigs: Vec<(String, Vec<u8>)> = if let Some(c) = sr.clone_of {
            if raw_samples.is_empty() {
                anc.iter().enumerate().map(|(i, a)| (format!("c{}", i), a.clone())).collect()
            } else {
                aims.push("identical-sample".into());
                raw_samples[c as usize % raw_samples.len()].clone()
            }
        } else {
            let mut r = SplitMix::new(sr.seed);
            anc.iter().enumerate().map(|(i, a)| (format!("c{}", i), diverge(a, sr.div_ppm, &mut r))).collect()
        };
        for op in &sr.contig_ops {
            if contigs.is_empty() {
                break;
            }
            match op {
                ContigOp::Drop(i) => {
                    if contigs.len() > 1 {
                        let i = *i as usize % contigs.len();
                        contigs.remove(i);
                        aims.push("contig-absent".into());
                    }
                }
                ContigOp::RevComp(i) => {
                    let i = *i as usize % contigs.len();
                    let s = std::str::from_utf8(&contigs[i].1).unwrap().to_string();
                    contigs[i].1 = revcomp_letters(&s).into_bytes();
                    aims.push("whole-contig-revcomp".into());
                }
                ContigOp::Duplicate(i) => {
                    let i = *i as usize % contigs.len();
                    let mut c = contigs[i].clone();
                    c.0 = format!("{}dup{}", c.0, contigs.len());
                    contigs.push(c);
                    aims.push("duplicated-contig".into());
                }
                ContigOp::Novel { len, seed } => {
                    let mut r = SplitMix::new(*seed);
                    let n = contigs.len();
                    contigs.push((format!("novel{}", n), random_bases(&mut r, *len as usize)));
                    aims.push("novel-contig".into());
                }
                ContigOp::SwapOrder(a, b) => {
                    let n = contigs.len();
                    contigs.swap(*a as usize % n, *b as usize % n);
                    aims.push("contigs-reordered".into());
                }
            }
        }
        for e in &sr.edits {
            if matches!(e, Edit::KnockSplitter { .. }) && si == 0 {
                continue;
            }
            apply_edit(&mut contigs, e, k, splitters.as_ref(), &mut aims);
        }
        contigs.retain(|c| !c.1.is_empty());
        if contigs.is_empty() {
            contigs.push(("c0".into(), b"ACGT".to_vec()));
        }
        // unique contig ids within the sample
        for i in 0..contigs.len() {
            let mut n = 0;
            while contigs[..i].iter().any(|c| c.0 == contigs[i].0) {
                n += 1;
                contigs[i].0 = format!("{}_{}", contigs[i].0, n);
            }
        }
        if si == 0 {
            // the reference's splitters, computed by ragc itself (only used to aim the generator)
            let codes: Vec<Vec<u8>> = contigs.iter().map(|c| letters_to_codes(std::str::from_utf8(&c.1).unwrap())).collect();
            let need = rec.samples.iter().any(|s| s.edits.iter().any(|e| matches!(e, Edit::KnockSplitter { .. })));
            if need {
                let (s, _, _) = ragc_core::determine_splitters(&codes, k, rec.params.segment_size as usize);
                splitters = Some(s);
            }
        }
        raw_samples.push(contigs);
    }
    if let Some((which, n, len, seed)) = rec.swarm {
        let si = which as usize % raw_samples.len();
        let mut r = SplitMix::new(seed);
        for j in 0..n {
            let l = 1 + (len as usize + (j as usize * 7) % 23) % 130;
            raw_samples[si].push((format!("sw{}", j), random_bases(&mut r, l)));
        }
        aims.push("orphan-swarm".into());
    }
    // tiny extra samples: single short contigs derived from the first ancestor contig
    for t in 0..rec.tiny_samples {
        let src = &anc[0];
        let mut r = SplitMix::new(rec.names.seed ^ (t as u64).wrapping_mul(0x9E37));
        // short ancestors are copied whole, so that every splitter-bounded segment gets > 50 members
        // (several packs per group); long ones contribute a window
        let len = if src.len() <= 2500 && t % 8 != 7 { src.len() } else { src.len().min(40 + (t as usize * 13) % 400) };
        let start = if src.len() > len { r.below((src.len() - len) as u64) as usize } else { 0 };
        let piece = diverge(&src[start..start + len], if t % 3 == 0 { 0 } else { 15_000 }, &mut r);
        raw_samples.push(vec![("c0".into(), if piece.is_empty() { b"ACGTACGT".to_vec() } else { piece })]);
    }
    if rec.tiny_samples > 0 {
        aims.push("many-samples".into());
    }
    // names
    let mut nr = SplitMix::new(rec.names.seed);
    let mut samples = Vec::new();
    let mut used_stems: std::collections::BTreeSet<String> = std::collections::BTreeSet::new();
    for (si, contigs) in raw_samples.into_iter().enumerate() {
        let stem: String = {
            // dots as in accession-style names (GCA_000001405.15): the file-name -> sample-name rule
            // must treat `x.15.fa` and `x.15.fa.gz` alike
            let alphabet = b"abcdefghijklmnopqrstuvwxyzABCDEFGHIJKLMNOPQRSTUVWXYZ0123456789_-....";
            let n = 1 + nr.below(8) as usize;
            let mut body: String = (0..n).map(|_| alphabet[nr.below(alphabet.len() as u64) as usize] as char).collect();
            // the index goes last, so that lexicographic name order is unrelated to the order in which
            // the samples are added (a listing or prefix lookup that sorts would otherwise go unnoticed);
            // a name ending in a digit also never ends in a FASTA / gzip extension the rule would strip
            let mut stem = format!("s{}{}", body, si);
            while used_stems.contains(&stem) {
                body.push('_');
                stem = format!("s{}{}", body, si);
            }
            used_stems.insert(stem.clone());
            stem
        };
        let name = if rec.pansn { format!("{}#{}", stem, nr.below(3)) } else { stem };
        let recs = contigs
            .into_iter()
            .enumerate()
            .map(|(ci, (id, seq))| {
                let id = if rec.pansn { format!("{}#{}", name, id) } else { id };
                ContigRec { header: make_header(&rec.names, si, ci, &id, rec.pansn), seq: String::from_utf8(seq).unwrap() }
            })
            .collect();
        samples.push(Sample { name, contigs: recs });
    }
    aims.sort();
    aims.dedup();
    let mut params = rec.params.clone();
    // a queue smaller than one contig blocks push forever (C05's subject); keep every contig admissible here
    let largest = samples.iter().flat_map(|s| s.contigs.iter().map(|c| c.seq.len() as u64)).max().unwrap_or(0);
    if params.queue_capacity <= largest {
        params.queue_capacity = largest + 1;
    }
    let mut revisit = None;
    if let Some((a, b)) = rec.revisit {
        if rec.pansn && !params.single_file && samples.len() >= 2 {
            let si = a as usize % (samples.len() - 1);
            let n = samples[si].contigs.len();
            if n >= 2 {
                revisit = Some((si as u16, (1 + b as usize % (n - 1)) as u16));
                aims.push("sample-revisited-in-a-later-file".into());
            }
        }
    }
    Collection { params, pres: rec.pres.clone(), pansn: rec.pansn, samples, aims, revisit }
}

// -------------------------------------------------------------- strategies --

pub fn params_strategy() -> impl Strategy<Value = Params> {
    let k = prop_oneof![4 => 9u32..=21, 2 => 22u32..=32, 1 => Just(31u32), 1 => Just(32u32)];
    let seg = prop_oneof![6 => 50u32..400, 3 => 400u32..1000, 1 => Just(5000u32), 1 => Just(60000u32)];
    let mm = prop_oneof![3 => 15u32..=32, 2 => Just(20u32), 1 => Just(15u32)];
    let threads = prop_oneof![2 => Just(1u32), 4 => 2u32..=6, 1 => 7u32..=16];
    let pack = prop_oneof![3 => Just(50u32), 3 => 1u32..8, 2 => 8u32..=60];
    let fb = prop_oneof![5 => Just(0u32), 1 => Just(50u32), 1 => Just(500u32), 1 => Just(1000u32)];
    let q = prop_oneof![2 => Just(0u64), 2 => Just(64 * 1024u64), 2 => Just(1024 * 1024u64), 3 => Just(2u64 << 30)];
    (k, seg, mm, threads, pack, fb, q, any::<bool>()).prop_map(|(k, segment_size, min_match, threads, pack, fallback_permille, queue_capacity, single_file)| Params {
        k,
        segment_size,
        min_match,
        threads,
        pack,
        fallback_permille,
        queue_capacity,
        single_file,
    })
}

pub fn presentation_strategy() -> impl Strategy<Value = Presentation> {
    let width = prop_oneof![2 => Just(0u32), 3 => Just(80u32), 2 => Just(60u32), 2 => 1u32..200, 1 => Just(100_000u32), 1 => Just(1u32)];
    (width, prop::bool::weighted(0.25), 0u8..3, prop_oneof![4 => Just(0u8), 2 => Just(1u8), 2 => Just(2u8)], prop::collection::vec(any::<u16>(), 1..5), prop::bool::weighted(0.85), 0u8..3, any::<u64>())
        .prop_map(|(width, crlf, case_mode, gz, cuts, final_newline, ext, case_seed)| Presentation { width, crlf, case_mode, gz, cuts, final_newline, ext, case_seed })
}

fn edit_strategy() -> impl Strategy<Value = Edit> {
    prop_oneof![
        2 => (any::<u8>(), any::<u16>()).prop_map(|(contig, pos)| Edit::Snp { contig, pos }),
        2 => (any::<u8>(), any::<u16>(), 1u8..200).prop_map(|(contig, pos, len)| Edit::Del { contig, pos, len }),
        2 => (any::<u8>(), any::<u16>(), 1u8..200, any::<u64>()).prop_map(|(contig, pos, len, seed)| Edit::Ins { contig, pos, len, seed }),
        3 => (any::<u8>(), any::<u16>(), prop_oneof![1u16..8, 8u16..300]).prop_map(|(contig, pos, len)| Edit::NRun { contig, pos, len }),
        4 => (any::<u8>(), any::<u16>(), 0u8..11, 1u8..5).prop_map(|(contig, pos, code, run)| Edit::Iupac { contig, pos, code, run }),
        4 => (any::<u8>(), any::<u8>(), prop_oneof![-20i8..0, -40i8..40], 0u8..3).prop_map(|(contig, which, dist, kind)| Edit::NearNRun { contig, which, dist, kind }),
        6 => (any::<u8>(), any::<u16>(), any::<u8>(), prop::option::weighted(0.7, (-20i8..20, 0u8..11))).prop_map(|(contig, which, offset, iupac)| Edit::KnockSplitter { contig, which, offset, iupac }),
    ]
}

fn contig_op_strategy() -> impl Strategy<Value = ContigOp> {
    prop_oneof![
        1 => any::<u8>().prop_map(ContigOp::Drop),
        2 => any::<u8>().prop_map(ContigOp::RevComp),
        1 => any::<u8>().prop_map(ContigOp::Duplicate),
        1 => (1u16..3000, any::<u64>()).prop_map(|(len, seed)| ContigOp::Novel { len, seed }),
        1 => (any::<u8>(), any::<u8>()).prop_map(|(a, b)| ContigOp::SwapOrder(a, b)),
    ]
}

fn sample_strategy() -> impl Strategy<Value = SampleRecipe> {
    let div = prop_oneof![1 => Just(0u32), 2 => Just(1_000u32), 3 => Just(10_000u32), 2 => Just(30_000u32), 1 => Just(100_000u32)];
    (div, any::<u64>(), prop::collection::vec(edit_strategy(), 0..8), prop::collection::vec(contig_op_strategy(), 0..3), prop::option::weighted(0.08, any::<u8>()))
        .prop_map(|(div_ppm, seed, edits, contig_ops, clone_of)| SampleRecipe { div_ppm, seed, edits, contig_ops, clone_of })
}

fn anc_strategy(max_len: usize) -> impl Strategy<Value = AncContig> {
    let len = prop_oneof![
        1 => 1usize..9,
        1 => 9usize..100,
        3 => 100usize..2000,
        4 => 2000usize..max_len.max(2001),
    ];
    let gaps = prop_oneof![
        5 => Just(Vec::new()),
        4 => prop::collection::vec((any::<u16>(), prop_oneof![2 => 1u16..4, 4 => 4u16..40, 1 => 40u16..300], 0u8..14), 1..4),
    ];
    (len, any::<u64>(), prop::option::weighted(0.2, (1u8..9, 20u16..400)), gaps).prop_map(|(len, seed, low, gaps)| AncContig { len, seed, low, gaps })
}

#[derive(Clone, Copy, Debug)]
pub struct GenCfg {
    pub max_contig: usize,
    pub max_samples: usize,
    /// probability (in %) of the >50 sample branch
    pub many_samples_pct: u32,
    /// force a mode: Some(true) single file, Some(false) one file per sample
    pub single_file: Option<bool>,
    pub vary_presentation: bool,
    /// probability (in %) of the "orphan swarm" branch: one sample gets 400..2600 extra short
    /// unrelated contigs (each raw group then receives several packs within one batch)
    pub swarm_pct: u32,
}

impl GenCfg {
    pub fn standard() -> GenCfg {
        GenCfg { max_contig: 12_000, max_samples: 6, many_samples_pct: 4, single_file: None, vary_presentation: true, swarm_pct: 4 }
    }
    pub fn small() -> GenCfg {
        GenCfg { max_contig: 3_000, max_samples: 4, many_samples_pct: 0, single_file: None, vary_presentation: false, swarm_pct: 0 }
    }
}

pub fn recipe_strategy(cfg: GenCfg) -> impl Strategy<Value = Recipe> {
    let names = (any::<u64>(), 0u8..5, 0u8..3).prop_map(|(seed, fields, exotic)| NameStyle { seed, fields, exotic });
    let tiny = if cfg.many_samples_pct > 0 {
        prop_oneof![
            (100 - cfg.many_samples_pct) => Just(0u16),
            cfg.many_samples_pct => 48u16..125,
        ]
        .boxed()
    } else {
        Just(0u16).boxed()
    };
    let swarm = if cfg.swarm_pct > 0 {
        prop::option::weighted(cfg.swarm_pct as f64 / 100.0, (any::<u8>(), prop_oneof![1 => 60u16..400, 3 => 400u16..2600], 8u8..120, any::<u64>())).boxed()
    } else {
        Just(None).boxed()
    };
    let pres = if cfg.vary_presentation { presentation_strategy().boxed() } else { Just(Presentation::plain()).boxed() };
    (
        params_strategy(),
        pres,
        any::<bool>(),
        prop::collection::vec(anc_strategy(cfg.max_contig), 1..5),
        prop::collection::vec(sample_strategy(), 1..cfg.max_samples.max(2)),
        names,
        tiny,
        swarm,
        prop::option::weighted(0.3, (any::<u8>(), any::<u8>())),
    )
        .prop_map(move |(mut params, pres, pansn, anc, samples, names, tiny_samples, swarm, revisit)| {
            if let Some(sf) = cfg.single_file {
                params.single_file = sf;
            }
            // a 60000-base segment size is only affordable with short contigs
            let total: usize = anc.iter().map(|a| a.len).sum();
            if params.segment_size >= 5000 && total > 30_000 {
                params.segment_size = 200;
            }
            let pansn = pansn || params.single_file;
            Recipe { params, pres, pansn, anc, samples, names, tiny_samples, swarm, revisit }
        })
}

pub fn collection_strategy(cfg: GenCfg) -> impl Strategy<Value = Collection> {
    recipe_strategy(cfg).prop_map(|r| expand(&r))
}
