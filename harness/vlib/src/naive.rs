//! Naive reference models over plain symbol strings (no bit tricks).

/// left-aligned 2-bit packing of exactly `w.len()` ACGT codes
pub fn pack(w: &[u8]) -> u64 {
    let mut v: u64 = 0;
    for (i, &c) in w.iter().enumerate() {
        debug_assert!(c < 4);
        v |= (c as u64) << (62 - 2 * i);
    }
    v
}

pub fn revcomp(w: &[u8]) -> Vec<u8> {
    w.iter().rev().map(|&c| 3 - c).collect()
}

pub fn canonical(w: &[u8]) -> u64 {
    pack(w).min(pack(&revcomp(w)))
}

pub fn is_dir(w: &[u8]) -> bool {
    pack(w) <= pack(&revcomp(w))
}

/// end positions (inclusive index of last base) and windows of all k-mers made
/// of k consecutive ACGT symbols
pub fn windows(seq: &[u8], k: usize) -> Vec<(usize, &[u8])> {
    let mut out = Vec::new();
    if k == 0 || seq.len() < k {
        return out;
    }
    for end in (k - 1)..seq.len() {
        let w = &seq[end + 1 - k..=end];
        if w.iter().all(|&c| c < 4) {
            out.push((end, w));
        }
    }
    out
}

/// reverse complement of a symbol string that only complements ACGT
pub fn revcomp_keep(s: &[u8]) -> Vec<u8> {
    s.iter().rev().map(|&c| if c < 4 { 3 - c } else { c }).collect()
}
