//! The one engine all properties share: proptest driver (fixed seed, fixed
//! case count, shrinking), exhaustive-sweep driver, per-case classification,
//! distinct/non-trivial accounting, replay files, shard results.

use crate::known::KnownFindings;
use crate::util;
use proptest::strategy::{Strategy, ValueTree};
use proptest::test_runner::{Config, RngSeed, TestCaseError, TestError, TestRunner};
use serde::{de::DeserializeOwned, Deserialize, Serialize};
use serde_json::{json, Value};
use std::cell::RefCell;
use std::collections::BTreeMap;
use std::fmt::Debug;
use std::hash::Hash;
use std::panic::{catch_unwind, AssertUnwindSafe};
use std::path::PathBuf;
use std::sync::Mutex;

#[derive(Clone, Copy, Debug, PartialEq, Eq, Serialize, Deserialize)]
pub enum Tier {
    Quick,
    Thorough,
}

impl Tier {
    pub fn name(self) -> &'static str {
        match self {
            Tier::Quick => "quick",
            Tier::Thorough => "thorough",
        }
    }
    pub fn parse(s: &str) -> Option<Tier> {
        match s {
            "quick" => Some(Tier::Quick),
            "thorough" => Some(Tier::Thorough),
            _ => None,
        }
    }
    /// pick(quick, thorough)
    pub fn pick<T>(self, q: T, t: T) -> T {
        match self {
            Tier::Quick => q,
            Tier::Thorough => t,
        }
    }
}

/// Everything a shard needs to know.
#[derive(Clone, Debug)]
pub struct Ctx {
    pub prop: String,
    pub tier: Tier,
    pub seed: u64,
    pub shard: usize,
    pub nshards: usize,
    pub verif_dir: PathBuf,
    pub repo: PathBuf,
    /// `ragc` built from the current tree, release profile
    pub ragc: PathBuf,
    /// `ragc` built with overflow checks (C18 only; may not exist otherwise)
    pub ragc_checked: PathBuf,
    /// this harness built with overflow checks (C18 only)
    pub vcheck_checked: PathBuf,
    /// schedule explorer built against the queue source (C05, C06)
    pub vshuttle: PathBuf,
    pub scratch: PathBuf,
    pub known: KnownFindings,
    /// replay mode: no known-finding tolerance for panics inside targets etc.
    pub replaying: bool,
    /// proptest shrink budget (expensive properties use a small one)
    pub shrink_iters: u32,
}

impl Ctx {
    /// number of cases this shard should run out of `total`
    pub fn share(&self, total: u64) -> u64 {
        let base = total / self.nshards as u64;
        let rem = total % self.nshards as u64;
        base + if (self.shard as u64) < rem { 1 } else { 0 }
    }
    pub fn stage_seed(&self, stage: &str) -> u64 {
        util::mix(util::mix(self.seed, util::str_seed(&self.prop)), util::mix(util::str_seed(stage), self.shard as u64))
    }
    pub fn scratch(&self, tag: &str) -> util::Scratch {
        util::Scratch::new(&self.scratch, tag)
    }
}

#[derive(Clone, Debug)]
pub enum Verdict {
    Pass,
    Fail(String),
    /// violation that matches an *open* entry of known_findings.json
    Known { id: String, what: String },
    /// the case lies in a region excluded because of a known finding
    Excluded,
    /// a watchdog / resource limit hit: says nothing about the property (exit 2)
    Inconclusive(String),
}

#[derive(Clone, Debug)]
pub struct Report {
    pub labels: Vec<&'static str>,
    pub nontrivial: bool,
    pub verdict: Verdict,
}

impl Report {
    pub fn pass(nontrivial: bool) -> Report {
        Report { labels: Vec::new(), nontrivial, verdict: Verdict::Pass }
    }
    pub fn fail(msg: impl Into<String>) -> Report {
        Report { labels: Vec::new(), nontrivial: true, verdict: Verdict::Fail(msg.into()) }
    }
    pub fn label(mut self, l: &'static str) -> Report {
        self.labels.push(l);
        self
    }
    pub fn label_if(mut self, c: bool, l: &'static str) -> Report {
        if c {
            self.labels.push(l);
        }
        self
    }
    pub fn inconclusive(msg: impl Into<String>) -> Report {
        Report { labels: Vec::new(), nontrivial: false, verdict: Verdict::Inconclusive(msg.into()) }
    }
    pub fn is_fail(&self) -> bool {
        matches!(self.verdict, Verdict::Fail(_))
    }
}

#[derive(Clone, Debug, Serialize, Deserialize)]
pub struct Failure {
    pub stage: String,
    pub message: String,
    pub case: Value,
    pub replay_path: String,
}

#[derive(Clone, Debug, Default, Serialize, Deserialize)]
pub struct StageStat {
    pub evaluations: u64,
    pub nontrivial: u64,
    pub exhaustive: bool,
}

/// Accumulated by one shard, serialised to the parent.
#[derive(Clone, Debug, Default, Serialize, Deserialize)]
pub struct Stats {
    pub evaluations: u64,
    pub nontrivial_hashes: Vec<u64>,
    pub labels: BTreeMap<String, u64>,
    pub samples: Vec<Value>,
    pub known: BTreeMap<String, (u64, String)>,
    pub excluded: u64,
    pub stages: BTreeMap<String, StageStat>,
    pub failures: Vec<Failure>,
    pub extra: BTreeMap<String, Value>,
    pub inconclusive: Vec<String>,
}

const MAX_SAMPLES_PER_SHARD: usize = 3;

impl Stats {
    pub fn add_extra_count(&mut self, key: &str, n: u64) {
        let cur = self.extra.get(key).and_then(|v| v.as_u64()).unwrap_or(0);
        self.extra.insert(key.to_string(), json!(cur + n));
    }

    fn observe(&mut self, stage: &str, hash: u64, rep: &Report, sample: &dyn Fn() -> Value) {
        self.evaluations += 1;
        let st = self.stages.entry(stage.to_string()).or_default();
        st.evaluations += 1;
        for l in &rep.labels {
            *self.labels.entry((*l).to_string()).or_insert(0) += 1;
        }
        match &rep.verdict {
            Verdict::Known { id, what } => {
                let e = self.known.entry(id.clone()).or_insert((0, what.clone()));
                e.0 += 1;
            }
            Verdict::Excluded => {
                self.excluded += 1;
                return;
            }
            Verdict::Inconclusive(m) => {
                if self.inconclusive.len() < 12 {
                    self.inconclusive.push(format!("stage {}: {}", stage, m));
                }
                return;
            }
            _ => {}
        }
        if rep.nontrivial {
            st.nontrivial += 1;
            self.nontrivial_hashes.push(hash);
            let per_stage = self.samples.iter().filter(|s| s["stage"] == stage).count();
            if per_stage < MAX_SAMPLES_PER_SHARD {
                self.samples.push(json!({"stage": stage, "labels": rep.labels, "case": util::abbreviate(&sample())}));
            }
        }
    }
}

thread_local! {
    static LAST_PANIC: RefCell<Option<String>> = RefCell::new(None);
}
static LAST_PANIC_ANY: Mutex<Option<String>> = Mutex::new(None);

/// Install a quiet panic hook that remembers message + location.
pub fn install_panic_hook() {
    let verbose = std::env::var("VERIF_VERBOSE").is_ok();
    std::panic::set_hook(Box::new(move |info| {
        let msg = if let Some(s) = info.payload().downcast_ref::<&str>() {
            (*s).to_string()
        } else if let Some(s) = info.payload().downcast_ref::<String>() {
            s.clone()
        } else {
            "<non-string panic>".to_string()
        };
        let loc = info.location().map(|l| format!("{}:{}", l.file(), l.line())).unwrap_or_default();
        let full = format!("{} @ {}", msg, loc);
        if verbose {
            eprintln!("[panic] {}", full);
        }
        LAST_PANIC.with(|p| *p.borrow_mut() = Some(full.clone()));
        if let Ok(mut g) = LAST_PANIC_ANY.lock() {
            // keep the *first* panic of a burst: worker-thread panics precede the
            // "Worker thread panicked" expect() in the joining thread
            if g.is_none() {
                *g = Some(full);
            }
        }
    }));
}

pub fn clear_panic_record() {
    LAST_PANIC.with(|p| *p.borrow_mut() = None);
    if let Ok(mut g) = LAST_PANIC_ANY.lock() {
        *g = None;
    }
}

pub fn take_panic_record() -> Option<String> {
    let own = LAST_PANIC.with(|p| p.borrow_mut().take());
    let any = LAST_PANIC_ANY.lock().ok().and_then(|mut g| g.take());
    match (any, own) {
        (Some(a), Some(o)) if a != o => Some(format!("{} (then: {})", a, o)),
        (Some(a), _) => Some(a),
        (None, o) => o,
    }
}

/// Run `f`, turning a panic into `Err(message @ location)`.
pub fn guarded<T>(f: impl FnOnce() -> T) -> Result<T, String> {
    clear_panic_record();
    match catch_unwind(AssertUnwindSafe(f)) {
        Ok(v) => Ok(v),
        Err(_) => Err(take_panic_record().unwrap_or_else(|| "panic (no message)".to_string())),
    }
}

fn guarded_check<C>(check: &dyn Fn(&C) -> Report, case: &C) -> Report {
    match guarded(|| check(case)) {
        Ok(r) => r,
        Err(p) => Report::fail(format!("panic: {}", p)),
    }
}

fn write_replay(ctx: &Ctx, stage: &str, message: &str, case: &Value) -> String {
    let dir = ctx.verif_dir.join("replays").join("found");
    let _ = std::fs::create_dir_all(&dir);
    let h = util::stable_hash(&case.to_string());
    let path = dir.join(format!("{}-{}-{:08x}.json", ctx.prop, stage, h as u32));
    let body = json!({
        "property": ctx.prop,
        "stage": stage,
        "seed": ctx.seed,
        "tier": ctx.tier.name(),
        "message": message,
        "case": case,
    });
    let _ = std::fs::write(&path, serde_json::to_string_pretty(&body).unwrap());
    path.to_string_lossy().to_string()
}

/// proptest driver: `total_cases` is the count for the whole run; this shard
/// executes its share with its own seed. Stops at the first failure, shrinks
/// it, writes the replay file.
pub fn run_prop<C, S>(
    ctx: &Ctx,
    stats: &mut Stats,
    stage: &str,
    total_cases: u64,
    strategy: S,
    check: &dyn Fn(&C) -> Report,
) where
    S: Strategy<Value = C>,
    C: Debug + Clone + Hash + Serialize,
{
    if stats.failures.iter().any(|f| f.stage == stage) {
        return;
    }
    let cases = ctx.share(total_cases);
    if cases == 0 {
        return;
    }
    let cfg = Config {
        cases: cases as u32,
        rng_seed: RngSeed::Fixed(ctx.stage_seed(stage)),
        failure_persistence: None,
        max_shrink_iters: std::env::var("VERIF_SHRINK_ITERS").ok().and_then(|s| s.parse().ok()).unwrap_or(ctx.shrink_iters),
        max_global_rejects: 1_000_000,
        max_local_rejects: 1_000_000,
        verbose: 0,
        ..Config::default()
    };
    let mut runner = TestRunner::new(cfg);
    let stats_cell = RefCell::new(std::mem::take(stats));
    let failed = RefCell::new(false);
    let last_fail_msg = RefCell::new(String::new());
    let result = runner.run(&strategy, |case| {
        let rep = guarded_check(check, &case);
        if !*failed.borrow() {
            let h = util::stable_hash(&case);
            stats_cell
                .borrow_mut()
                .observe(stage, h, &rep, &|| serde_json::to_value(&case).unwrap_or(Value::Null));
        }
        match rep.verdict {
            Verdict::Fail(m) => {
                *failed.borrow_mut() = true;
                *last_fail_msg.borrow_mut() = m.clone();
                Err(TestCaseError::fail(m))
            }
            _ => Ok(()),
        }
    });
    *stats = stats_cell.into_inner();
    match result {
        Ok(()) => {}
        Err(TestError::Fail(reason, minimal)) => {
            // re-run the minimal case to get its own message
            let rep = guarded_check(check, &minimal);
            let message = match rep.verdict {
                Verdict::Fail(m) => m,
                _ => format!("{} (minimal case did not re-fail deterministically)", reason),
            };
            let case = serde_json::to_value(&minimal).unwrap_or(Value::Null);
            let replay_path = write_replay(ctx, stage, &message, &case);
            stats.failures.push(Failure { stage: stage.to_string(), message, case, replay_path });
        }
        Err(TestError::Abort(reason)) => {
            stats.inconclusive.push(format!("stage {}: proptest aborted: {}", stage, reason));
        }
    }
}

/// Generate one value from a strategy with a fixed seed (for building fixtures).
pub fn generate_one<S: Strategy>(strategy: &S, seed: u64) -> S::Value {
    let cfg = Config { rng_seed: RngSeed::Fixed(seed), failure_persistence: None, ..Config::default() };
    let mut runner = TestRunner::new(cfg);
    strategy.new_tree(&mut runner).expect("strategy").current()
}

/// Exhaustive driver: items with `index % nshards == shard` are checked; the
/// sweep stops at the first failure (items are small by construction).
pub fn run_exhaustive<C, I>(
    ctx: &Ctx,
    stats: &mut Stats,
    stage: &str,
    items: I,
    check: &dyn Fn(&C) -> Report,
) where
    I: Iterator<Item = C>,
    C: Debug + Clone + Hash + Serialize,
{
    if stats.failures.iter().any(|f| f.stage == stage) {
        return;
    }
    for (idx, case) in items.enumerate() {
        if idx % ctx.nshards != ctx.shard {
            continue;
        }
        let rep = guarded_check(check, &case);
        let h = util::stable_hash(&case);
        stats.observe(stage, h, &rep, &|| serde_json::to_value(&case).unwrap_or(Value::Null));
        if let Verdict::Fail(message) = rep.verdict {
            let cj = serde_json::to_value(&case).unwrap_or(Value::Null);
            let replay_path = write_replay(ctx, stage, &message, &cj);
            stats.failures.push(Failure { stage: stage.to_string(), message, case: cj, replay_path });
            return;
        }
    }
    stats.stages.entry(stage.to_string()).or_default().exhaustive = true;
}

/// Record a single hand-driven evaluation (used by custom stages).
pub fn record<C: Hash + Serialize>(ctx: &Ctx, stats: &mut Stats, stage: &str, case: &C, rep: Report) -> bool {
    let h = util::stable_hash(case);
    stats.observe(stage, h, &rep, &|| serde_json::to_value(case).unwrap_or(Value::Null));
    if let Verdict::Fail(message) = rep.verdict {
        let cj = serde_json::to_value(case).unwrap_or(Value::Null);
        let replay_path = write_replay(ctx, stage, &message, &cj);
        stats.failures.push(Failure { stage: stage.to_string(), message, case: cj, replay_path });
        return false;
    }
    true
}

pub fn from_case<C: DeserializeOwned>(v: &Value) -> Result<C, String> {
    serde_json::from_value(v.clone()).map_err(|e| format!("replay case does not parse: {}", e))
}

/// Static description of a property check.
pub struct PropInfo {
    pub id: &'static str,
    pub level: &'static str,
    pub rule: &'static str,
    pub assumptions: &'static [&'static str],
    pub needs_cli: bool,
    pub needs_checked: bool,
    /// max shards that make sense (1 for checks that own all cores themselves)
    pub max_shards: usize,
    /// proptest shrink iterations after a failure
    pub shrink_iters: u32,
    /// watchdog for the whole run (seconds): quick, thorough
    pub watchdog_s: (u64, u64),
    pub run: fn(&Ctx, &mut Stats),
    pub replay: fn(&Ctx, &str, &Value) -> Report,
}
