use std::path::PathBuf;
use vlib::engine::Tier;

fn arg_after(args: &[String], flag: &str) -> Option<String> {
    args.iter().position(|a| a == flag).and_then(|i| args.get(i + 1).cloned())
}

fn main() {
    let args: Vec<String> = std::env::args().collect();
    if args.len() < 3 {
        eprintln!("usage: vcheck run <Cxx> --tier quick|thorough [--seed N]\n       vcheck replay <Cxx> <file>\n       vcheck shard … (internal)\n       vcheck child <name> … (internal helper processes)");
        std::process::exit(2);
    }
    let seed: u64 = arg_after(&args, "--seed")
        .or_else(|| std::env::var("VERIF_SEED").ok())
        .and_then(|s| s.parse::<i64>().ok().map(|v| v as u64).or_else(|| s.parse::<u64>().ok()))
        .unwrap_or(0);
    let tier = arg_after(&args, "--tier").or_else(|| std::env::var("VERIF_TIER").ok()).and_then(|s| Tier::parse(&s)).unwrap_or(Tier::Quick);
    let code = match args[1].as_str() {
        "run" => vlib::driver::run_main(&args[2], tier, seed),
        "replay" => {
            let f = args.get(3).cloned().unwrap_or_default();
            vlib::driver::replay_main(&args[2], &PathBuf::from(f))
        }
        "shard" => {
            let shard = arg_after(&args, "--shard").and_then(|s| s.parse().ok()).unwrap_or(0);
            let of = arg_after(&args, "--of").and_then(|s| s.parse().ok()).unwrap_or(1);
            let out = PathBuf::from(arg_after(&args, "--out").expect("--out"));
            vlib::driver::shard_main(&args[2], tier, seed, shard, of, &out)
        }
        "child" => vlib::children::child_main(&args[2..]),
        _ => {
            eprintln!("unknown command {}", args[1]);
            2
        }
    };
    std::process::exit(code);
}
