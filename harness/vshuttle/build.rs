fn main() {
    // the queue source is included by #[path]; these flags switch its std::sync import to
    // shuttle::sync and enable its event hooks (which resolve to this crate's verif_hooks)
    println!("cargo:rustc-cfg=ragc_verif");
    println!("cargo:rustc-cfg=ragc_verif_shuttle");
    println!("cargo:rustc-check-cfg=cfg(ragc_verif)");
    println!("cargo:rustc-check-cfg=cfg(ragc_verif_shuttle)");
    println!("cargo:rerun-if-changed=../../.repo/ragc-core/src/memory_bounded_queue.rs");
}
