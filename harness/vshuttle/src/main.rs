//! Schedule exploration of ragc's REAL bounded priority queue source under shuttle
//! (random and PCT schedulers, fixed seeds). Two scenarios:
//!   queue     C06: p producers, c consumers, a closer; multiset / order / bound / close oracles
//!   pipeline  C05: the compressor's usage pattern (1 producer, N workers, sync-token rounds
//!             with 4 barrier waits each, final tokens, close, join): nobody stays blocked
//!
//! usage: vshuttle <queue|pipeline> --iters N --seed S [--pct DEPTH] --out result.json [--schedule-dir D]
//!        vshuttle <queue|pipeline> --replay <schedule file>

#[allow(dead_code)]
#[path = "../../../.repo/ragc-core/src/memory_bounded_queue.rs"]
mod memory_bounded_queue;
mod verif_hooks;

use memory_bounded_queue::MemoryBoundedQueue;
use shuttle::rand::Rng;
use shuttle::sync::{Arc, Barrier, Mutex};
use shuttle::thread;
use std::collections::BTreeMap;
use std::sync::atomic::{AtomicU64, Ordering};

type Tid = String;

fn me() -> Tid {
    format!("{:?}", thread::current().id())
}

#[derive(Clone, Debug, PartialEq, Eq, PartialOrd, Ord)]
struct Item {
    prio: i32,
    cost: u32,
    neg_seq: i64,
    id: u32,
    token: bool,
}

// statistics across iterations (plain std atomics: not scheduling points)
static ITER: AtomicU64 = AtomicU64::new(0);
static NONTRIVIAL: AtomicU64 = AtomicU64::new(0);
static C_PUSH_WAIT: AtomicU64 = AtomicU64::new(0);
static C_PULL_WAIT: AtomicU64 = AtomicU64::new(0);
static C_REFUSED: AtomicU64 = AtomicU64::new(0);
static C_PRIO_MIX: AtomicU64 = AtomicU64::new(0);
static C_CLOSE_EARLY: AtomicU64 = AtomicU64::new(0);
static C_ROUNDS2: AtomicU64 = AtomicU64::new(0);
static SAMPLES: std::sync::Mutex<Vec<String>> = std::sync::Mutex::new(Vec::new());
static DISTINCT: std::sync::Mutex<Option<std::collections::HashSet<u64>>> = std::sync::Mutex::new(None);

fn note_distinct(sig: &str) -> bool {
    use std::hash::{Hash, Hasher};
    #[allow(deprecated)]
    let mut h = std::hash::SipHasher::new();
    sig.hash(&mut h);
    let mut g = DISTINCT.lock().unwrap();
    g.get_or_insert_with(Default::default).insert(h.finish())
}

/// Replay the under-lock event log against a sequential model of the queue.
fn replay_log(cap: usize, pushed_by: &BTreeMap<Tid, Vec<Item>>, pulled_by: &BTreeMap<Tid, Vec<Item>>) -> (bool, bool, bool) {
    let log = verif_hooks::take();
    let mut model: Vec<(Item, usize)> = Vec::new();
    let mut bytes = 0usize;
    let mut closed = false;
    let mut push_idx: BTreeMap<Tid, usize> = BTreeMap::new();
    let mut pull_idx: BTreeMap<Tid, usize> = BTreeMap::new();
    let (mut saw_push_wait, mut saw_pull_wait, mut prio_mix) = (false, false, false);
    for e in &log {
        match e.kind {
            "admit" => {
                assert!(!closed, "an item was admitted after close");
                let i = push_idx.entry(e.thread.clone()).or_insert(0);
                // the i-th *accepted* push of that thread
                let it = pushed_by.get(&e.thread).and_then(|v| v.get(*i)).unwrap_or_else(|| panic!("admit event without a matching accepted push"));
                *i += 1;
                bytes += e.size;
                model.push((it.clone(), e.size));
                assert!(bytes <= cap, "bytes queued {} exceed the capacity {} although every item fits", bytes, cap);
                assert_eq!(bytes, e.bytes, "queue's own byte count {} differs from the model's {}", e.bytes, bytes);
                assert_eq!(model.len(), e.len, "queue length {} differs from the model's {}", e.len, model.len());
                let mut ps: Vec<i32> = model.iter().map(|m| m.0.prio).collect();
                ps.dedup();
                if ps.len() >= 2 {
                    prio_mix = true;
                }
            }
            "take" => {
                let i = pull_idx.entry(e.thread.clone()).or_insert(0);
                let it = pulled_by.get(&e.thread).and_then(|v| v.get(*i)).unwrap_or_else(|| panic!("take event without a matching pulled item"));
                *i += 1;
                let pos = model.iter().position(|m| &m.0 == it).unwrap_or_else(|| panic!("pulled item {:?} was not in the queue (returned twice or never accepted)", it));
                let best = model.iter().map(|m| &m.0).max().unwrap();
                assert!(it >= best, "pull returned {:?} while the strictly higher-priority {:?} stayed queued", it, best);
                let (_, sz) = model.remove(pos);
                assert_eq!(sz, e.size, "size accounting differs on take");
                bytes -= sz;
                assert_eq!(bytes, e.bytes, "queue's own byte count {} differs from the model's {} after a take", e.bytes, bytes);
            }
            "close" => closed = true,
            "push-wait" => saw_push_wait = true,
            "pull-wait" => saw_pull_wait = true,
            "pull-none" => assert!(closed && model.is_empty(), "pull reported end-of-stream while open or non-empty"),
            "push-refused" => assert!(closed, "push refused although the queue is open"),
            _ => {}
        }
    }
    for (t, v) in pulled_by {
        assert_eq!(pull_idx.get(t).copied().unwrap_or(0), v.len(), "a pulled item has no take event");
    }
    (saw_push_wait, saw_pull_wait, prio_mix)
}

fn scenario_queue() {
    verif_hooks::reset();
    let mut rng = shuttle::rand::thread_rng();
    let cap: usize = rng.gen_range(1..=10);
    let np: usize = rng.gen_range(1..=3);
    let nc: usize = rng.gen_range(1..=3);
    let n_items: usize = rng.gen_range(1..=8);
    let early_close = rng.gen_range(0..4) == 0;
    let q: Arc<MemoryBoundedQueue<Item>> = Arc::new(MemoryBoundedQueue::new(cap));
    let mut plan: Vec<Vec<(Item, usize)>> = vec![Vec::new(); np];
    for id in 0..n_items {
        let size = rng.gen_range(0..=cap);
        let it = Item { prio: rng.gen_range(0..3), cost: size as u32, neg_seq: -(id as i64), id: id as u32, token: false };
        plan[id % np].push((it, size));
    }
    let sig = format!("cap={} p={} c={} early={} plan={:?}", cap, np, nc, early_close, plan.iter().map(|v| v.iter().map(|x| (x.0.prio, x.1)).collect::<Vec<_>>()).collect::<Vec<_>>());
    let accepted: Arc<Mutex<BTreeMap<Tid, Vec<Item>>>> = Arc::new(Mutex::new(BTreeMap::new()));
    let pulled: Arc<Mutex<BTreeMap<Tid, Vec<Item>>>> = Arc::new(Mutex::new(BTreeMap::new()));
    let refused = Arc::new(Mutex::new(0usize));
    let mut producers = Vec::new();
    for items in plan.clone() {
        let q = q.clone();
        let accepted = accepted.clone();
        let refused = refused.clone();
        producers.push(thread::spawn(move || {
            let me = me();
            let mut mine = Vec::new();
            for (k, (it, size)) in items.into_iter().enumerate() {
                // every other item through try_push (spinning would defeat the scheduler, so a
                // would-block falls back to the blocking push)
                let ok = if k % 2 == 1 {
                    match q.try_push(it.clone(), size) {
                        Ok(()) => true,
                        Err(memory_bounded_queue::TryPushError::Closed) => false,
                        Err(memory_bounded_queue::TryPushError::WouldBlock) => q.push(it.clone(), size).is_ok(),
                    }
                } else {
                    q.push(it.clone(), size).is_ok()
                };
                if ok {
                    mine.push(it);
                } else {
                    *refused.lock().unwrap() += 1;
                }
            }
            accepted.lock().unwrap().insert(me, mine);
        }));
    }
    let mut consumers = Vec::new();
    for _ in 0..nc {
        let q = q.clone();
        let pulled = pulled.clone();
        consumers.push(thread::spawn(move || {
            let me = me();
            let mut mine = Vec::new();
            while let Some(it) = q.pull() {
                mine.push(it);
            }
            // after end-of-stream nothing may appear any more
            assert!(q.try_pull().is_none(), "an item appeared after pull reported end-of-stream");
            pulled.lock().unwrap().insert(me, mine);
        }));
    }
    if early_close {
        // a close racing with the producers: later pushes are refused, waiters are released
        q.close();
    }
    for p in producers {
        p.join().unwrap();
    }
    if !early_close {
        q.close();
    }
    assert!(q.is_closed());
    assert!(q.push(Item { prio: 9, cost: 0, neg_seq: 0, id: 999, token: false }, 0).is_err(), "push accepted after close");
    for c in consumers {
        c.join().unwrap();
    }
    // (i) exactly-once: accepted multiset == pulled multiset, nothing left, nothing invented
    let acc = accepted.lock().unwrap().clone();
    let pul = pulled.lock().unwrap().clone();
    let mut a: Vec<Item> = acc.values().flatten().cloned().collect();
    let mut b: Vec<Item> = pul.values().flatten().cloned().collect();
    a.sort();
    b.sort();
    assert_eq!(a, b, "items accepted by push and items returned by pull differ");
    assert_eq!(q.len(), 0, "items left in the queue after every consumer saw end-of-stream");
    assert_eq!(q.current_size(), 0, "bytes still accounted after the queue drained");
    // (ii) linearisation order from the under-lock log
    let (pw, cw, mix) = replay_log(cap, &acc, &pul);
    let n_ref = *refused.lock().unwrap();
    ITER.fetch_add(1, Ordering::Relaxed);
    if pw {
        C_PUSH_WAIT.fetch_add(1, Ordering::Relaxed);
    }
    if cw {
        C_PULL_WAIT.fetch_add(1, Ordering::Relaxed);
    }
    if mix {
        C_PRIO_MIX.fetch_add(1, Ordering::Relaxed);
    }
    if n_ref > 0 {
        C_REFUSED.fetch_add(1, Ordering::Relaxed);
    }
    if early_close {
        C_CLOSE_EARLY.fetch_add(1, Ordering::Relaxed);
    }
    if pw && cw && mix {
        if note_distinct(&sig) {
            NONTRIVIAL.fetch_add(1, Ordering::Relaxed);
            let mut s = SAMPLES.lock().unwrap();
            if s.len() < 4 {
                s.push(sig);
            }
        }
    }
}

/// The compressor's usage of the queue: one producer, N workers, sync-token rounds.
fn scenario_pipeline() {
    verif_hooks::reset();
    let mut rng = shuttle::rand::thread_rng();
    let n_workers: usize = rng.gen_range(1..=4);
    let rounds: usize = rng.gen_range(0..=3);
    let cap: usize = rng.gen_range(2..=12);
    let q: Arc<MemoryBoundedQueue<Item>> = Arc::new(MemoryBoundedQueue::new(cap));
    let barrier = Arc::new(Barrier::new(n_workers));
    // contigs per round (the last entry is the tail after the last sync round)
    let mut per_round: Vec<Vec<usize>> = Vec::new();
    for _ in 0..=rounds {
        let n = rng.gen_range(0..=3);
        // a quarter of the contigs are larger than the whole capacity: push() admits such an item once the queue is empty
        per_round.push((0..n).map(|_| if rng.gen_range(0..4) == 0 { rng.gen_range(cap + 1..=cap + 3) } else { rng.gen_range(1..=cap) }).collect());
    }
    let sig = format!("workers={} cap={} rounds={:?}", n_workers, cap, per_round);
    let processed = Arc::new(Mutex::new(Vec::<u32>::new()));
    let rounds_seen = Arc::new(Mutex::new(vec![0usize; n_workers]));
    let mut workers = Vec::new();
    for w in 0..n_workers {
        let q = q.clone();
        let barrier = barrier.clone();
        let processed = processed.clone();
        let rounds_seen = rounds_seen.clone();
        workers.push(thread::spawn(move || {
            while let Some(task) = q.pull() {
                if task.token {
                    // the 4-phase pattern of worker_thread(): four barrier waits per token
                    for _ in 0..4 {
                        barrier.wait();
                    }
                    rounds_seen.lock().unwrap()[w] += 1;
                } else {
                    thread::yield_now(); // "segment the contig"
                    processed.lock().unwrap().push(task.id);
                }
            }
        }));
    }
    // producer = push() / sync tokens / finalize() as the compressor issues them:
    // priorities fall monotonically in push order; a round's tokens carry the priority of the
    // contigs before them with cost 0 (pulled after those contigs, before later ones)
    let mut prio = i32::MAX;
    let mut id = 0u32;
    let mut seq = 0i64;
    let mut pushed = 0usize;
    for (r, contigs) in per_round.iter().enumerate() {
        for &size in contigs {
            q.push(Item { prio, cost: size as u32, neg_seq: -seq, id, token: false }, size).expect("push on an open queue");
            id += 1;
            seq += 1;
            pushed += 1;
        }
        if r < rounds {
            for _ in 0..n_workers {
                q.push(Item { prio, cost: 0, neg_seq: -seq, id: 10_000 + r as u32, token: true }, 0).expect("token push");
            }
            prio -= 1;
        }
    }
    for _ in 0..n_workers {
        q.push(Item { prio: 1_000_000, cost: 0, neg_seq: 0, id: 20_000, token: true }, 0).expect("final token push");
    }
    q.close();
    for w in workers {
        w.join().unwrap();
    }
    let done = processed.lock().unwrap().clone();
    assert_eq!(done.len(), pushed, "finalize returned with {} of {} queued contigs processed", done.len(), pushed);
    let mut d = done.clone();
    d.sort_unstable();
    d.dedup();
    assert_eq!(d.len(), pushed, "a contig was processed twice");
    for (w, &n) in rounds_seen.lock().unwrap().iter().enumerate() {
        assert_eq!(n, rounds + 1, "worker {} went through {} synchronisation rounds, expected {}", w, n, rounds + 1);
    }
    let log = verif_hooks::take();
    let pw = log.iter().any(|e| e.kind == "push-wait");
    ITER.fetch_add(1, Ordering::Relaxed);
    if pw {
        C_PUSH_WAIT.fetch_add(1, Ordering::Relaxed);
    }
    if rounds >= 1 {
        C_ROUNDS2.fetch_add(1, Ordering::Relaxed);
    }
    if n_workers >= 2 && rounds >= 1 && pw && note_distinct(&sig) {
        NONTRIVIAL.fetch_add(1, Ordering::Relaxed);
        let mut s = SAMPLES.lock().unwrap();
        if s.len() < 4 {
            s.push(sig);
        }
    }
}

fn arg(args: &[String], f: &str) -> Option<String> {
    args.iter().position(|a| a == f).and_then(|i| args.get(i + 1).cloned())
}

fn main() {
    let args: Vec<String> = std::env::args().collect();
    let which = args.get(1).cloned().unwrap_or_default();
    let body: fn() = match which.as_str() {
        "queue" => scenario_queue,
        "pipeline" => scenario_pipeline,
        _ => {
            eprintln!("usage: vshuttle <queue|pipeline> --iters N --seed S [--pct D] --out F [--schedule-dir D] | --replay FILE");
            std::process::exit(2);
        }
    };
    if let Some(f) = arg(&args, "--replay") {
        let r = std::panic::catch_unwind(|| shuttle::replay_from_file(body, &f));
        match r {
            Ok(()) => {
                println!("replay: property held");
                std::process::exit(0);
            }
            Err(p) => {
                let msg = p.downcast_ref::<String>().cloned().or_else(|| p.downcast_ref::<&str>().map(|s| s.to_string())).unwrap_or_default();
                println!("replay: {}", msg);
                std::process::exit(1);
            }
        }
    }
    let iters: usize = arg(&args, "--iters").and_then(|s| s.parse().ok()).unwrap_or(1000);
    let seed: u64 = arg(&args, "--seed").and_then(|s| s.parse().ok()).unwrap_or(0);
    let out = arg(&args, "--out").expect("--out");
    let sched_dir = arg(&args, "--schedule-dir").unwrap_or_else(|| ".".into());
    let _ = std::fs::create_dir_all(&sched_dir);
    let mut cfg = shuttle::Config::default();
    cfg.failure_persistence = shuttle::FailurePersistence::File(Some(std::path::PathBuf::from(&sched_dir)));
    cfg.max_steps = shuttle::MaxSteps::FailAfter(200_000);
    let quiet = std::panic::take_hook();
    std::panic::set_hook(Box::new(|_| {}));
    let result = std::panic::catch_unwind(move || {
        if let Some(d) = arg(&std::env::args().collect::<Vec<_>>(), "--pct").and_then(|s| s.parse::<usize>().ok()) {
            let runner = shuttle::Runner::new(shuttle::scheduler::PctScheduler::new_from_seed(seed, d, iters), cfg);
            runner.run(body);
        } else {
            let runner = shuttle::Runner::new(shuttle::scheduler::RandomScheduler::new_from_seed(seed, iters), cfg);
            runner.run(body);
        }
    });
    std::panic::set_hook(quiet);
    let failure = match &result {
        Ok(_) => None,
        Err(p) => Some(p.downcast_ref::<String>().cloned().or_else(|| p.downcast_ref::<&str>().map(|s| s.to_string())).unwrap_or_else(|| "panic".into())),
    };
    // newest schedule file, if a failure was persisted
    let mut schedule: Option<String> = None;
    if failure.is_some() {
        if let Ok(rd) = std::fs::read_dir(&sched_dir) {
            let mut files: Vec<_> = rd.filter_map(|e| e.ok()).map(|e| e.path()).filter(|p| p.is_file()).collect();
            files.sort_by_key(|p| std::fs::metadata(p).and_then(|m| m.modified()).ok());
            schedule = files.last().map(|p| p.to_string_lossy().to_string());
        }
    }
    let res = serde_json::json!({
        "scenario": which, "iterations": ITER.load(Ordering::Relaxed), "distinct_nontrivial": NONTRIVIAL.load(Ordering::Relaxed),
        "with_producer_wait": C_PUSH_WAIT.load(Ordering::Relaxed), "with_consumer_wait": C_PULL_WAIT.load(Ordering::Relaxed),
        "with_refused_push": C_REFUSED.load(Ordering::Relaxed), "with_mixed_priorities": C_PRIO_MIX.load(Ordering::Relaxed),
        "with_racing_close": C_CLOSE_EARLY.load(Ordering::Relaxed), "with_sync_rounds": C_ROUNDS2.load(Ordering::Relaxed),
        "samples": *SAMPLES.lock().unwrap(), "failure": failure, "schedule_file": schedule, "seed": seed,
    });
    std::fs::write(&out, res.to_string()).expect("write result");
    std::process::exit(if result.is_ok() { 0 } else { 1 });
}
