//! The `crate::verif_hooks` the included queue source calls into (shuttle build).
use std::sync::Mutex;

#[derive(Clone, Debug)]
pub struct QEvent {
    pub kind: &'static str,
    pub thread: String,
    pub size: usize,
    pub len: usize,
    pub bytes: usize,
    pub closed: bool,
}

// plain std mutex: only one shuttle task runs at a time and the lock is never held across a yield
pub static LOG: Mutex<Vec<QEvent>> = Mutex::new(Vec::new());

pub fn queue_event(kind: &'static str, size: usize, len: usize, bytes: usize, closed: bool) {
    LOG.lock().unwrap().push(QEvent { kind, thread: format!("{:?}", shuttle::thread::current().id()), size, len, bytes, closed });
}

pub fn reset() {
    LOG.lock().unwrap().clear();
}

pub fn take() -> Vec<QEvent> {
    std::mem::take(&mut *LOG.lock().unwrap())
}
