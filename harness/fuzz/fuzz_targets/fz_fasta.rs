#![no_main]
// libFuzzer target: bytes -> structured case -> the same oracle the proptest driver uses
// (vlib::fuzzing::fuzz_one aborts on a failed oracle, so the input is saved).
libfuzzer_sys::fuzz_target!(|data: &[u8]| {
    vlib::fuzzing::fuzz_one("fasta", data);
});
