#!/usr/bin/env bash
# confirm + run checks for one delivery: seeded_pipeline.sh <delivery dir> <Cxx[,Cyy]> ; result in <dir>/pipeline.log
D="$1"; IDS="$2"
{
  /verif/tools/confirm_seeded.sh "$D" | tail -4
  if grep -q CONFIRMED "$D/confirm.log"; then /verif/tools/try_seeded.sh "$D/patch.diff" "$IDS" quick; fi
} > "$D/pipeline.log" 2>&1
