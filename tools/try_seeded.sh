#!/usr/bin/env bash
# Apply a seeded change to /repo, run one or more checks (quick tier by default), undo it.
# usage: try_seeded.sh <patch.diff> <Cxx>[,<Cyy>...] [quick|thorough]
# Prints one line per check: "<id> exit=<rc> <seconds>s" + the VIOLATION/INCONCLUSIVE lines.
set -u
PATCH="$(readlink -f "$1")"; IDS="$2"; TIER="${3:-quick}"
cd /repo || exit 3
if [ -n "$(git status --porcelain --untracked-files=no)" ]; then echo "/repo is not clean"; exit 3; fi
git apply "$PATCH" || { echo "patch does not apply"; exit 3; }
trap 'git -C /repo checkout -- . ; git -C /repo clean -fdq -e target >/dev/null 2>&1' EXIT
for id in ${IDS//,/ }; do
  s=$(date +%s)
  out="$(/verif/check "$id" "$TIER" 2>&1)"; rc=$?
  echo "$id exit=$rc $(( $(date +%s)-s ))s"
  git -C /verif checkout -- "evidence/$id.json" 2>/dev/null   # evidence is only committed from runs on the unchanged tree
  echo "$out" | grep -E "VIOLATION|INCONCLUSIVE|failure in stage|KNOWN-FINDING" | cut -c1-400 | head -8
done
