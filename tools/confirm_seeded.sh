#!/usr/bin/env bash
# Confirm a seeded change delivered by a sub-agent, in a scratch worktree of /repo:
#   1. demo passes on the unchanged tree          2. patch applies, builds
#   3. the repository's test suite passes with it 4. demo fails with it
# usage: confirm_seeded.sh <dir with patch.diff + demo.rs|demo.sh + crate.txt (for demo.rs)>
# Writes <dir>/confirm.log; exit 0 = confirmed. The worktree and its build output are removed.
set -u
D="$(cd "$1" && pwd)"
WT="/tmp/confirm-wt-$$"
LOG="$D/confirm.log"
export CARGO_NET_OFFLINE=true
: > "$LOG"
say() { echo "$*" | tee -a "$LOG"; }
cleanup() { git -C /repo worktree remove --force "$WT" >/dev/null 2>&1; rm -rf "$WT"; }
trap cleanup EXIT
git -C /repo worktree add --detach "$WT" HEAD >>"$LOG" 2>&1 || { say "worktree failed"; exit 3; }
cd "$WT"
# share the build cache of earlier confirmations to save time (outside /repo and /verif)
export CARGO_TARGET_DIR="${CONFIRM_TARGET:-/tmp/confirm-target}"

run_demo() {
  if [ -f "$D/demo.rs" ]; then
    local crate; crate="$(cat "$D/crate.txt" 2>/dev/null || echo ragc-core)"
    mkdir -p "$WT/$crate/tests"
    cp "$D/demo.rs" "$WT/$crate/tests/seeded_demo.rs"
    timeout 2400 cargo test --offline -p "$crate" --test seeded_demo >>"$LOG" 2>&1
    local rc=$?
    rm -f "$WT/$crate/tests/seeded_demo.rs"
    return $rc
  else
    timeout 3000 cargo build --offline --release -p ragc-cli --bin ragc >>"$LOG" 2>&1 || return 99
    timeout 1800 bash "$D/demo.sh" "$CARGO_TARGET_DIR/release/ragc" >>"$LOG" 2>&1
  fi
}

say "== 1. demo on unchanged tree"
run_demo; rc=$?
[ $rc -eq 0 ] || { say "FAIL: demo does not pass on the unchanged tree (rc=$rc)"; exit 1; }
say "== 2. apply patch"
git apply "$D/patch.diff" >>"$LOG" 2>&1 || { say "FAIL: patch does not apply"; exit 1; }
git diff --stat | tee -a "$LOG"
say "== 3. test suite with the change"
# a few existing tests use fixed /tmp paths and collide with other jobs running the same suite:
# a failing run is repeated (up to 3 runs); only a suite that fails every time counts as failing
for attempt in 1 2 3 4; do
  # one suite at a time across all confirmations (the fixed /tmp names collide otherwise)
  flock /tmp/ragc-suite.lock timeout 3600 cargo test --workspace --no-fail-fast --offline >"$D/confirm-tests.log" 2>&1; rc=$?
  [ $rc -eq 0 ] && break
  say "   (suite run $attempt failed: $(grep -E '^test .* FAILED' "$D/confirm-tests.log" | head -3 | tr '\n' ' '))"
done
grep -E '^test result' "$D/confirm-tests.log" | awk '{p+=$4; f+=$6} END {print "tests passed=" p " failed=" f}' | tee -a "$LOG"
[ $rc -eq 0 ] || { say "FAIL: test suite fails with the change (rc=$rc)"; grep -E 'FAILED|panicked|error' "$D/confirm-tests.log" | head -20 | tee -a "$LOG"; exit 1; }
say "== 4. demo with the change (must fail)"
run_demo; rc=$?
[ $rc -ne 0 ] || { say "FAIL: demo still passes with the change"; exit 1; }
[ $rc -ne 99 ] || { say "FAIL: build failed"; exit 1; }
say "CONFIRMED (demo rc with change = $rc)"
exit 0
