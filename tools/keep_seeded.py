#!/usr/bin/env python3
"""Keep a confirmed seeded change under /verif/seeded/<name>/.
usage: keep_seeded.py <delivery dir> <name> <property> <needs (text)> <detected: 'C06 quick: exit 1 ...' | 'MISSED ...'> [title]"""
import sys, os, shutil, json, subprocess
src, name, prop, needs, detected = sys.argv[1:6]
title = sys.argv[6] if len(sys.argv) > 6 else ""
dst = os.path.join('/verif/seeded', name)
os.makedirs(dst, exist_ok=True)
for f in ('patch.diff', 'demo.rs', 'demo.sh', 'crate.txt', 'README.md'):
    p = os.path.join(src, f)
    if os.path.exists(p):
        shutil.copy(p, os.path.join(dst, f))
confirm = open(os.path.join(src, 'confirm.log')).read() if os.path.exists(os.path.join(src, 'confirm.log')) else ''
lines = [l for l in confirm.splitlines() if l.startswith('==') or l.startswith('tests passed') or 'CONFIRMED' in l or l.startswith('FAIL')]
files = subprocess.run(['grep', '-E', r'^\+\+\+ b/', os.path.join(dst, 'patch.diff')], capture_output=True, text=True).stdout.split()
files = [f[2:] for f in files if f.startswith('b/')]
meta = {
    "id": name,
    "property": prop,
    "title": title,
    "files_changed": files,
    "needs_to_manifest": needs,
    "demonstration": "demo.rs (copied to <crate>/tests/seeded_demo.rs, crate in crate.txt; `cargo test --offline -p <crate> --test seeded_demo`)" if os.path.exists(os.path.join(dst, 'demo.rs')) else "demo.sh <path to release ragc binary>",
    "confirmed_by": "tools/confirm_seeded.sh in a scratch worktree of /repo HEAD: demo passes unchanged; patch applies; `cargo test --workspace --no-fail-fast --offline` passes with the patch; demo fails with the patch",
    "confirm_log": lines,
    "origin": "written by a sub-agent that saw only the property text and a scratch worktree (nothing from /verif)",
    "checks_run": detected,
}
json.dump(meta, open(os.path.join(dst, 'meta.json'), 'w'), indent=1)
print('kept', dst)
