#!/usr/bin/env python3
"""Regenerates /verif/MANIFEST.json from the table below (keeps it schema-valid)."""
import json, os, sys

HERE = os.path.dirname(os.path.dirname(os.path.abspath(__file__)))

# id -> (category, technique, level text, level note, design ref)
CHECKS = {
 "C01": ("exploration", "proptest-generated related-sample collections through the real `ragc create`, round-trip oracle against the input (library reader + `ragc getset`)",
         "Collections are built by construction so that LZ groups, cost-based splits with re-orientation, IUPAC codes next to a knocked-out splitter, reverse-complemented segments, delta-id reuse, >50 samples and >50 group members occur (class histogram in the evidence); ~220 (quick) / ~6200 (thorough) archives per run. Exploration is the right level: the statement quantifies over inputs x parameters and the oracle (the input itself) is exact.",
         "Inputs respect the callers' implicit preconditions (unique names, PanSN samples contiguous, every contig admissible by the queue). Sizes: contigs <= 12 kb, <= 126 samples.",
         "DESIGN.md §6 C01"),
 "C02": ("exploration", "differential testing of every generated archive against an independent AGC v3 decoder written from the format rules",
         "Every archive of an own C01-style batch (~190 quick / ~6200 thorough) is parsed by vlib/src/agcref.rs, which shares no code with ragc, recovers all samples, and asserts the addressing rules the statement lists. A change applied consistently to ragc's writer and reader keeps C01 green and fails here.",
         "The independent decoder is my reading of the AGC v3 rules; there is no C++ AGC binary in the sandbox to validate it against.",
         "DESIGN.md §6 C02"),
 "C03": ("exploration", "proptest name/descriptor tables through the codec (hook H1) differentially against an independent decoder; batch layer through an Archive file; end to end through ragc create and the listings; thorough tier adds a coverage-guided libFuzzer campaign (cargo-fuzz target fz_codec, same oracle inside the target)",
         "6*10^4 (quick) / 2*10^6 (thorough) catalogues whose consecutive names share / change fields (run markers around 100/200, empty fields, tabs, changing field counts) and whose in-group ids repeat, go back, return to 0 or jump; up to 129 samples in 1..59-sample codec batches and in real 50-sample archive batches; ~60 / 3000 created archives for the listing layer.",
         "Group ids <= 100000, ids <= 10^6; names unique and NUL-free. The independent decoder defines the byte format.",
         "DESIGN.md §6 C03"),
 "C04": ("exploration", "metamorphic testing over generated schedule sets: the same collection created 5..12 times with different thread counts, queue capacities, producer delays and seeded worker-side perturbation (hook H2); oracle = identical SHA-256",
         "32 (quick) / 800 (thorough) collections, ~200 / ~8000 creates; two fifths are single PanSN files with sync-token rounds every 1..8 contigs, thread counts from {1,2,3,4,8,16} with at least three distinct per case.",
         "Real-thread interleavings are sampled with perturbation, not owned: a race that needs a window the hook points never open can be missed. This is randomised schedule generation, not model checking.",
         "DESIGN.md §6 C04"),
 "C05": ("exploration", "generated (workers, capacity, sync placement, delays, perturbation) configurations of the real pipeline in a child process with an event-log based stuck-state proof and an OS-level one (no thread of the child did any work for 5 s), plus shuttle random/PCT schedule exploration of the real queue source under a skeleton of the protocol",
         "192 (quick) / 6000 (thorough) pipeline runs incl. capacities below one contig and explicit sync_and_flush; 1.75*10^5 (quick) / 3.5*10^6 (thorough) shuttle schedules of the 1-producer / 1..4-worker / 0..3-round skeleton.",
         "Bounded liveness: a run either returns within the (progress-aware) watchdog or the log / the operating system must prove the stuck state; slow-but-live is inconclusive (exit 2). The exhaustive N<=3 exploration the quantifier mentions would be model checking, which this technique family does not do; shuttle's randomised schedulers are the in-family substitute.",
         "DESIGN.md §6 C05"),
 "C06": ("exploration", "sequential model-based testing + shuttle random/PCT schedule exploration of the real queue source with an under-lock event log replayed against the sequential model + real-thread runs with the same log-replay oracle",
         "10^6 (quick) / 10^7 (thorough) sequential histories; 2.6*10^5 / 5*10^6 shuttle schedules (p<=3, c<=3, <=8 items, racing close); 960 / 2*10^4 real-thread runs with up to 16 threads (joined with a stuck check, so threads left blocked after close are reported instead of hanging the check).",
         "Concurrent legs assume every item fits the capacity (the statement's precondition). Schedules are randomised (seeded), not exhaustive.",
         "DESIGN.md §6 C06"),
 "C07": ("exploration", "proptest archives x enumerated / junction-centred (start,end) ranges; oracle = slice of the full extraction",
         "~110 (quick) / 2000 (thorough) archives with many short segments; every (start,end) for contigs <= 90 bases, otherwise every start within +-(k+1) of segment junctions crossed with a family of ends, ~8*10^5 range queries per quick run.",
         "Relative to full extraction (C01 relates that to the input).",
         "DESIGN.md §6 C07"),
 "C08": ("exploration", "model-based history testing: every operation sequence up to length 2 (and length 3 over a sub-alphabet) plus random longer ones per archive, oracle = same operation on a fresh handle; cloned handles on concurrent threads vs the same sequence alone",
         "96 (quick) / 1600 (thorough) archives x 1462 enumerated sequences + structure-aware sequences (pairs of segment occurrences that share a stored entry / group / in-group id, raw pack vs LZ group id collisions, queried back to back) + random sequences of length 4..12 addressing any sample / contig, a quarter of the archives with two metadata batches; half of the cases also run 2..8 cloned handles concurrently.",
         "Errors are compared as 'is an error'. Thread interleavings of the cloned readers are whatever the OS schedules (the handles share no state by construction; a violation needs shared state, which any schedule exposes as a changed value).",
         "DESIGN.md §6 C08"),
 "C09": ("exploration", "exhaustive small-alphabet pairs + proptest edit-script-derived (reference, target) pairs; round-trip oracle plus independent LZ-text decoder; thorough tier adds a coverage-guided libFuzzer campaign (cargo-fuzz target fz_lz, same oracle inside the target)",
         "All pairs with |ref|,|target| <= 6 over {A,C,N} (1.2*10^6), all targets <= 5 over {A,C,G,T,N,30} against fixed references, N runs 1..8 at all offsets are enumerated; 3*10^6 (quick) / 3*10^7 (thorough) structured random pairs up to 2 kb / 40 kb exercise matches, back-extension, '!' rewriting, elided lengths, N runs, code 30.",
         "min match >= 5; the independent decoder defines the LZ-diff V2 text.",
         "DESIGN.md §6 C09"),
 "C10": ("exploration", "exhaustive short contigs + proptest contigs with splitter sets built from their own k-mers; positional tiling oracle from the statement; thorough tier adds a coverage-guided libFuzzer campaign (cargo-fuzz target fz_seg, same oracle inside the target)",
         "All contigs <= 9 over {A,C,N} for k<=3 (both entry points) are enumerated; 2*10^6 (quick) / 3*10^7 (thorough) random cases with k 1..32, dense / sparse / forced-last-k / adjacent splitters.",
         "Which splitter occurrences are used is deliberately not asserted (not part of the statement).",
         "DESIGN.md §6 C10"),
 "C11": ("exploration", "proptest references vs naive k-mer counting, metamorphic permutation / reverse-complement relation, cross-variant and cross-thread-pool agreement",
         "2.4*10^4 (quick) / 3*10^5 (thorough) references with repeats, duplicated contigs, N runs; a quarter of them also through the streaming / first-sample file variants (plain and gzip) and rayon pools of 1/2/4/16 threads.",
         "FASTA files passed to the file-based variants contain no record without bases.",
         "DESIGN.md §6 C11"),
 "C12": ("exploration", "exhaustive short byte strings per symbol range + proptest strings on both sides of the repetitiveness threshold; inverse-function and independent-unpacker oracles; thorough tier adds a coverage-guided libFuzzer campaign (cargo-fuzz target fz_pack, same oracle inside the target)",
         "2.2*10^5 strings enumerated (all lengths/remainders for widths 4/3/2/1, max-symbol boundaries 3/4 5/6 15/16 at lengths 0..40); 2.4*10^4 (quick) / 4*10^5 (thorough) random strings up to 100 kB through both reference markers, all levels, and fresh-vs-reused compression contexts; 64 (quick) / 1500 (thorough) single-thread call histories over incompressible inputs: a base length, then every length from base-300 to base+base/256+80 round-tripped (frames larger than the input).",
         "The zstd crate's decoder is the reference for ZSTD frames.",
         "DESIGN.md §6 C12"),
 "C13": ("exploration", "model-based (stateful) testing: generated operation histories vs a sequential container model and an independent footer parser; integer codec vs the format rule; thorough tier adds a coverage-guided libFuzzer campaign (cargo-fuzz target fz_arc, same oracle inside the target)",
         "6*10^4 (quick) / 10^6 (thorough) histories of register / add / add-buffered / flush / set-raw-size with metadata at every byte-length boundary, reopen, sequential and random-access reads; bursts of 15..1500 buffered parts per flush; stages large-parts (parts of 4 MiB -9 .. 8 MiB, the writer's buffer size) and large-directory (8000..50000 parts or 3000..20000 streams: directories on both sides of 64 KiB); 2*10^6+ integer magnitudes.",
         "Buffered parts use registered stream ids; file offsets stay < 2^32 (magnitudes up to 2^64-1 are covered for the integer codec and metadata only).",
         "DESIGN.md §6 C13"),
 "C14": ("fault_enumeration", "enumeration of every strict prefix (crash point) of generated archives, opened in resource-limited child processes in two build profiles",
         "32 (quick) / 192 (thorough) archives, every prefix length (stride 8 in the middle of archives > 200 kB), ~3*10^5 opens per quick run, each with the release and the overflow-checked build under RLIMIT_AS 4 GiB; the reachable crash states of one archive are enumerated completely, the archives themselves are sampled. Stage crafted-containers (320 / 6000): containers written by ragc's own Archive writer whose payloads make in-range footer lengths frequent (0x00 / 0xFF runs, back-pointers, 0xFF count bytes, directory look-alikes), every prefix, both builds.",
         "The file is written front to back in one pass, so prefixes are exactly the crash states. Only a Decompressor handle (not a bare container handle) counts as acceptance.",
         "DESIGN.md §6 C14"),
 "C15": ("fault_enumeration", "fault injection by file-size limit at enumerated byte offsets of generated archives (real CLI and library path in child processes)",
         "16 (quick) / 160 (thorough) archives x ~30 / ~250 injection offsets chosen from the independent parser's directory (part starts and interiors, footer start, directory, the 8-byte length) plus random ones; thorough also all offsets of 16 small archives. Control runs at and above the final size show the injection bites exactly below it. Stage pipe-output: `ragc create -o <fifo>` with a reader that leaves before the first write (EPIPE) or consumes everything (control). Stage big-archive: one ~4.6 MiB archive (above the 4 MiB write buffer, so parts are written before the final flush and a failing write surfaces in add_part / worker threads) x 16 / 96 limits around 1, 4 MiB and the end.",
         "Fault model: first failing write at byte N and every later write fails (EFBIG as stand-in for ENOSPC; EPIPE on a FIFO). Only the big-archive stage exceeds the 4 MiB write buffer.",
         "DESIGN.md §6 C15"),
 "C16": ("exploration", "grammar-based generation of byte-level FASTA texts driven through the real binary; oracle = reject, or list + extract everything equal to the normalised input",
         "480 (quick) / 10^4 (thorough) multi-file and PanSN inputs with non-IUPAC letters in later (LZ-encoded) records, header-only records, blank lines in every position, CR/LF, missing final newline, digits and gap characters.",
         "Headers are non-empty, do not start with '>' or blanks; non-letter characters above '@' are not generated.",
         "DESIGN.md §6 C16"),
 "C17": ("exploration", "proptest over create flag combinations, request lists and prefixes through the real binary; metamorphic composition oracle (multi-sample output = concatenation of single-sample outputs) and exit-status oracle over 18 failure requests",
         "240 (quick) / 4000 (thorough) cases, ~40 process runs each: stdout and -o (into a file that already holds other content) for lists with repeats and for prefixes matching several samples (half of the prefixes match every sample; name order is unrelated to archive order); unsupported flags --batch/--adaptive/--concatenated; unknown names, missing / truncated / garbage archives.",
         "Single-sample getset is the reference for composition.",
         "DESIGN.md §6 C17"),
 "C18": ("exploration", "differential testing of two build profiles (release vs release+overflow-checks) of both the CLI and the harness on generated archives and LZ pairs",
         "160 (quick) / 4000 (thorough) collections biased to single files with many sync rounds, a fifth with --queue-capacity below the largest contig, created and extracted by both builds (4 extraction combinations, byte identity where creation is deterministic) and every other read-side query (lengths, ranges around both ends, descriptor tables, statistics, reference segments) compared between the two reader builds; 10^5 (quick) / 3*10^6 (thorough) LZ pairs through estimate / cost vectors / encode in both builds; the prefix space runs in both builds under C14.",
         "Debug assertions are off in both builds, so overflow checking is the only difference.",
         "DESIGN.md §6 C18"),
 "C19": ("exploration", "metamorphic testing across 3..4 generated presentations of one collection through the real binary: equal listings and extractions, byte-identical archives within a mode",
         "192 (quick) / 3000 (thorough) collections x (plain / gzip / multi-member gzip with boundaries anywhere, at record starts or at line starts, widths 1..100000 or unwrapped, CRLF, case, final newline) plus one-file vs per-sample-files for PanSN collections.",
         "A byte difference is only blamed on presentation when two runs of the same presentation agree.",
         "DESIGN.md §6 C19"),
 "C20": ("exploration", "exhaustive enumeration of small k / short strings + proptest random strings vs naive string model; thorough tier adds a coverage-guided libFuzzer campaign (cargo-fuzz target fz_kmer, same oracle inside the target)",
         "All 4^k windows for k<=8 and all strings up to length k+3 over {A,C,G,T,N} for small k are enumerated; k up to 32 (weighted to 31/32) is sampled with 3*10^6 (quick) / 4*10^7 (thorough) random strings. Exploration is the right level: the property is a pure function law and the risky region (k=32, shift 0) is reached by construction.",
         "Trusts the naive model in vlib/src/naive.rs (string reversal, left-aligned 2-bit packing). Callers' reset-at-non-ACGT protocol is part of the checked behaviour.",
         "DESIGN.md §6 C20"),
}

NOT_APPLICABLE = {
}

PENDING_REASON = "check not built yet in this session (planned in DESIGN.md §6); not claimed until it runs clean on the unchanged tree"

def main():
    props = [json.loads(l) for l in open(os.path.join(HERE, "properties.jsonl"))]
    checks = []
    na = []
    for p in props:
        pid = p["id"]
        if pid in CHECKS:
            cat, tech, text, note, ref = CHECKS[pid]
            checks.append({
                "property_id": pid,
                "quick_cmd": f"./check {pid} quick",
                "thorough_cmd": f"./check {pid} thorough",
                "evidence_file": f"/verif/evidence/{pid}.json",
                "replay_cmd_template": f"./check {pid} --replay {{path}}",
                "engine": "vcheck",
                "level_claimed": {"category": cat, "text": text, "design_ref": ref},
                "level_note": note,
                "technique": tech,
            })
        else:
            na.append({"property_id": pid, "reason": NOT_APPLICABLE.get(pid, PENDING_REASON)})
    hooks_commits = []
    hc = os.path.join(HERE, "hooks_commits.txt")
    if os.path.exists(hc):
        hooks_commits = [l.split()[0] for l in open(hc) if l.strip() and not l.startswith("#")]
    m = {
        "version": 1,
        "setup_cmd": "./check setup",
        "hooks": {
            "guard": "--cfg ragc_verif",
            "enable": "RUSTFLAGS=\"--cfg ragc_verif\" for every cargo build the check script runs (harness, ragc-cli); the shuttle build of the queue additionally sets --cfg ragc_verif_shuttle for that one crate",
            "baseline_off_cmd": "cd /repo && cargo test --workspace --no-fail-fast --offline",
            "source_commits": hooks_commits,
            "add_only": True,
        },
        "engines": [
            {"name": "vcheck", "path": "harness/vcheck", "serves_properties": sorted(CHECKS.keys()),
             "kind_free_text": "proptest TestRunner driven from a binary (fixed seed from VERIF_SEED, fixed case counts, shrinking), exhaustive sweeps of small sub-spaces, sharded over worker processes; oracles and reference models in harness/vlib"},
            {"name": "vfuzz", "path": "harness/fuzz", "serves_properties": ["C03", "C09", "C10", "C12", "C13", "C16", "C20"],
             "kind_free_text": "cargo-fuzz / libFuzzer targets (nightly, sanitizer coverage) that decode bytes into the structured case types of vlib and call the same oracle functions; started by the vcheck shards in the thorough tier with fixed -runs/-seed on fresh corpora (odd shards seeded, even shards empty); a stopping input is re-judged by the release oracle, minimised, and saved as a structured replay case"},
        ],
        "checks": checks,
        "not_applicable": na,
        "notes": "Technique family: property-based testing and fuzzing. Exit 2 = inconclusive (build failure / watchdog), never a violation. known_findings.json lists recorded and fixed defects.",
    }
    json.dump(m, open(os.path.join(HERE, "MANIFEST.json"), "w"), indent=1)
    print(f"MANIFEST.json: {len(checks)} checks, {len(na)} not claimed")

if __name__ == "__main__":
    main()
