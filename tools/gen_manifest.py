#!/usr/bin/env python3
"""Regenerates /verif/MANIFEST.json from the table below (keeps it schema-valid)."""
import json, os, sys

HERE = os.path.dirname(os.path.dirname(os.path.abspath(__file__)))

# id -> (category, technique, level text, level note, design ref)
CHECKS = {
 "C20": ("exploration", "exhaustive enumeration of small k / short strings + proptest random strings vs naive string model",
         "All 4^k windows for k<=8 and all strings up to length k+3 over {A,C,G,T,N} for small k are enumerated; k up to 32 (weighted to 31/32) is sampled with 2*10^5 (quick) / 5*10^6 (thorough) random strings. Exploration is the right level: the property is a pure function law and the risky region (k=32, shift 0) is reached by construction.",
         "Trusts the naive model in vlib/src/naive.rs (string reversal, left-aligned 2-bit packing). Callers' reset-at-non-ACGT protocol is part of the checked behaviour.",
         "DESIGN.md §6 C20"),
}

NOT_APPLICABLE = {
}

PENDING_REASON = "check not built yet in this session (planned in DESIGN.md §6); not claimed until it runs clean on the unchanged tree"

def main():
    props = [json.loads(l) for l in open(os.path.join(HERE, "properties.jsonl"))]
    checks = []
    na = []
    for p in props:
        pid = p["id"]
        if pid in CHECKS:
            cat, tech, text, note, ref = CHECKS[pid]
            checks.append({
                "property_id": pid,
                "quick_cmd": f"./check {pid} quick",
                "thorough_cmd": f"./check {pid} thorough",
                "evidence_file": f"/verif/evidence/{pid}.json",
                "replay_cmd_template": f"./check {pid} --replay {{path}}",
                "engine": "vcheck",
                "level_claimed": {"category": cat, "text": text, "design_ref": ref},
                "level_note": note,
                "technique": tech,
            })
        else:
            na.append({"property_id": pid, "reason": NOT_APPLICABLE.get(pid, PENDING_REASON)})
    hooks_commits = []
    hc = os.path.join(HERE, "hooks_commits.txt")
    if os.path.exists(hc):
        hooks_commits = [l.split()[0] for l in open(hc) if l.strip() and not l.startswith("#")]
    m = {
        "version": 1,
        "setup_cmd": "./check setup",
        "hooks": {
            "guard": "--cfg ragc_verif",
            "enable": "RUSTFLAGS=\"--cfg ragc_verif\" for every cargo build the check script runs (harness, ragc-cli); the shuttle build of the queue additionally sets --cfg ragc_verif_shuttle for that one crate",
            "baseline_off_cmd": "cd /repo && cargo test --workspace --no-fail-fast --offline",
            "source_commits": hooks_commits,
            "add_only": True,
        },
        "engines": [
            {"name": "vcheck", "path": "harness/vcheck", "serves_properties": sorted(CHECKS.keys()),
             "kind_free_text": "proptest TestRunner driven from a binary (fixed seed from VERIF_SEED, fixed case counts, shrinking), exhaustive sweeps of small sub-spaces, sharded over worker processes; oracles and reference models in harness/vlib"},
        ],
        "checks": checks,
        "not_applicable": na,
        "notes": "Technique family: property-based testing and fuzzing. Exit 2 = inconclusive (build failure / watchdog), never a violation. known_findings.json lists recorded and fixed defects.",
    }
    json.dump(m, open(os.path.join(HERE, "MANIFEST.json"), "w"), indent=1)
    print(f"MANIFEST.json: {len(checks)} checks, {len(na)} not claimed")

if __name__ == "__main__":
    main()
