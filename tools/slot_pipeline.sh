#!/usr/bin/env bash
# Parallel variant of seeded_pipeline.sh: confirm a delivered seeded change and run checks against it
# WITHOUT touching /repo, in a persistent "slot" under /tmp/par/s<N> (own worktree of /repo's HEAD, own
# copy of /verif with its own .build, own cargo target for the confirmation), so that several deliveries
# can be processed at the same time.
#   usage: slot_pipeline.sh <slot number> <delivery dir> <Cxx[,Cyy]> [quick|thorough] [--no-confirm]
# Result: <delivery dir>/pipeline.log (+ confirm.log, check-<id>.log). The slot is kept for re-use
# (incremental builds); remove all slots with: slot_pipeline.sh clean
set -u
if [ "${1:-}" = clean ]; then
  for d in /tmp/par/s*/repo; do [ -d "$d" ] && git -C /repo worktree remove --force "$d" >/dev/null 2>&1; done
  rm -rf /tmp/par; git -C /repo worktree prune; exit 0
fi
N="$1"; D="$(cd "$2" && pwd)"; IDS="$3"; TIER="${4:-quick}"; NOCONF="${5:-}"
S="/tmp/par/s$N"; mkdir -p "$S"
exec >"$D/pipeline.log" 2>&1
if [ "$NOCONF" != "--no-confirm" ]; then
  CONFIRM_TARGET="$S/ctarget" /verif/tools/confirm_seeded.sh "$D" | tail -4
  grep -q CONFIRMED "$D/confirm.log" || { echo "NOT CONFIRMED"; exit 1; }
fi
HEAD="$(git -C /repo rev-parse HEAD)"
if [ ! -d "$S/repo/.git" ] && [ ! -f "$S/repo/.git" ]; then
  git -C /repo worktree add --detach "$S/repo" "$HEAD" >/dev/null 2>&1 || { echo "worktree failed"; exit 3; }
else
  git -C "$S/repo" checkout -q -- . ; git -C "$S/repo" clean -fdq; git -C "$S/repo" checkout -q --detach "$HEAD"
fi
rsync -a --delete --exclude .build --exclude .git --exclude .repo --exclude 'replays/found' /verif/ "$S/verif/"
git -C "$S/repo" apply "$D/patch.diff" || { echo "patch does not apply"; exit 3; }
for id in ${IDS//,/ }; do
  s=$(date +%s)
  VERIF_REPO="$S/repo" "$S/verif/check" "$id" "$TIER" >"$D/check-$id.log" 2>&1; rc=$?
  echo "$id exit=$rc $(( $(date +%s)-s ))s"
  grep -E "VIOLATION|INCONCLUSIVE|failure in stage|KNOWN-FINDING" "$D/check-$id.log" | cut -c1-600 | head -8
  # keep the replay cases the check wrote (they live in the slot's copy of /verif)
  mkdir -p "$D/found"; cp -r "$S/verif/replays/found/." "$D/found/" 2>/dev/null; rm -rf "$S/verif/replays/found"
done
git -C "$S/repo" checkout -q -- . ; git -C "$S/repo" clean -fdq
